"""C07 — types.ts declares exactly the serde types reachable from the public surface.

  D1  CALLS   type names are harvested from all five seed sites (parameter, return, channel message, event payload, field types)
              and referenced types are collected from all five *_type_structure fields
  D2  TABLE   the structure collector has an arm for every TypeStructure variant (no wildcard) and recurses into every bound child
  D3  ORDER   every insertion into the declared set happens after the transitive closure over field types was computed for it
  D4  SIBLING type-name harvesting splits argument lists only with the depth-aware splitter (shared with C05-D5)
  D5  TABLE   the serde filter is `derive` containing a path whose last segment is Serialize or Deserialize; it is applied both when
              indexing and when extracting a definition
  D6  FLOW    what is emitted is the used set (collect_used_types), never the full discovered set; Result keeps only its success type
"""
import re

from common import Rule, V, finish
from mirlib import ENTRY_POINTS, short_path, op_place, op_const
from srclib import walk, walk_block, lit_str, expr_text, pat_text, pat_bindings, stmt_exprs

PROP = "C07"
GEN_MODELS = "tauri_typegen::generators::base::BaseBindingsGenerator::generate_models"
SEED_FIELDS = {
    "ParameterInfo.rust_type": "parameter types", "CommandInfo.return_type": "return types", "ChannelInfo.message_type": "channel message types",
    "EventInfo.payload_type": "event payload types", "FieldInfo.rust_type": "field types",
}
STRUCT_FIELDS = {
    "ParameterInfo.type_structure": "parameters", "CommandInfo.return_type_structure": "returns", "ChannelInfo.message_type_structure": "channel messages",
    "FieldInfo.type_structure": "fields", "EventInfo.payload_type_structure": "event payloads",
}


DOC_BUILTINS = {"String", "&str", "str", "i8", "i16", "i32", "i64", "i128", "isize", "u8", "u16", "u32", "u64", "u128", "usize", "f32", "f64", "bool", "()",
                "char", "HashMap", "BTreeMap", "HashSet", "BTreeSet", "Vec", "Option", "Result", "Box", "Rc", "Arc"}


def check_stale_harvest_reads(P, rule, reach):
    """what is harvested is what was extracted: in a function that harvests type names, a field that the function itself assigns (`command.channels =
    channels`) is not the harvest's source at a point *before* that assignment — there it still holds the parser's placeholder (an empty list),
    and the names of the freshly extracted values are never queued for discovery."""
    HARV = ("CommandAnalyzer::extract_type_names", "CommandAnalyzer::extract_type_names_recursive", "TypeCollector::collect_referenced_types_from_structure")
    n = 0
    for fid in sorted(reach):
        f = P.fns.get(fid)
        if f is None or "{closure" in fid or "{promoted" in fid:
            continue
        clos = {k for k in P.family(fid) if "::{closure" in k and any(short_path(c.best) in HARV for c in P.fns[k].calls)}
        if not clos and not any(short_path(c.best) in HARV for c in f.calls):
            continue
        assigns = []
        for b in sorted(f.reach_blocks):
            for i, st in enumerate(f.blocks[b]["stmts"]):
                lhs = st.get("lhs")
                if lhs and lhs.get("p") and lhs["p"][-1].get("k") == "field" and lhs["p"][-1].get("name") and st.get("rv", {}).get("k") in ("use",):
                    assigns.append((b, i, lhs))
        for (ab, ai, lhs) in assigns:
            fld = lhs["p"][-1]

            def same(pl):
                return pl.get("l") == lhs["l"] and any(pj.get("k") == "field" and pj.get("name") == fld["name"] and pj.get("adt") == fld.get("adt") for pj in pl.get("p", []))
            # reads of the field that come before the assignment on every path (their block dominates the assignment)
            early = []
            for b in sorted(f.reach_blocks):
                if not f.dominates(b, ab):
                    continue
                for i, st in enumerate(f.blocks[b]["stmts"]):
                    if b == ab and i >= ai:
                        break
                    rv = st.get("rv") or {}
                    pls = [rv.get("place")] + [(rv.get("op") or {}).get(k_) for k_ in ("copy", "move")] if isinstance(rv.get("op"), dict) or rv.get("place") else []
                    if any(isinstance(pl, dict) and same(pl) for pl in pls):
                        early.append((b, st))
            if not early:
                continue
            n += 1
            T, calls = f.forward_taint(same)
            hit = None
            for (c, idxs) in calls:
                if short_path(c.best) in HARV:
                    hit = c
                for a_ in c.args:
                    o = f.origin(a_)
                    if o[0] == "aggr" and isinstance(o[1], dict) and any(k in (o[1].get("closure") or o[1].get("def") or "") for k in clos):
                        hit = c
                if hit is None and clos and any("{closure" in g_ and any(k == g_ or k.endswith(g_) or g_.endswith(k) for k in clos) for g_ in (c.generics or [])):
                    hit = c
            if hit is not None and all(not f.dominates(ab, b) for (b, _) in early):
                rule.bad(V(rule.id, fid, "harvest-reads-field-before-assignment:%s" % fld["name"],
                           "%s: type names are harvested from `.%s` before the function assigns the freshly extracted value to it — at that point the field "
                           "still holds the parser's placeholder, so the new values' types are never queued" % (short_path(fid), fld["name"]), hit.file, hit.line))
    rule.ok("harvest sources are not fields read ahead of their assignment (%d early reads examined)" % n)


def find_harvester(S):
    """the recursive harvester of type names: CommandAnalyzer::extract_type_names_recursive, or — after it was moved / renamed — the self-recursive
    function that the (public, pinned) entry CommandAnalyzer::extract_type_names hands its argument to"""
    fn = S.fn("CommandAnalyzer", "extract_type_names_recursive")
    if fn is not None and fn.name == "extract_type_names_recursive":     # (S.fn answers with the pinned caller when the function is gone)
        return fn
    entry = S.fn("CommandAnalyzer", "extract_type_names")
    if entry is None:
        return None
    called = set()
    for e in walk_block(entry.body):
        if e.get("k") == "mcall":
            called.add(e["method"])
        elif e.get("k") == "call" and e["func"].get("k") == "path":
            called.add(e["func"]["segs"][-1])
    for g in S.fns:
        if g.body is not None and g.name in called and g is not entry and any("HashSet" in (p_.get("ty") or "") for p_ in g.sig.get("params", [])):
            selfrec = any((e.get("k") == "mcall" and e["method"] == g.name) or (e.get("k") == "call" and e["func"].get("k") == "path" and e["func"]["segs"][-1] == g.name)
                          for e in walk_block(g.body))
            if selfrec:
                return g
    return None


def model_fields_in_slice(P, f, op, depth=10):
    """model fields (`CommandInfo.return_type`, ..) read anywhere in the backward slice of a value, including inside the closures handed to the
    iterator adapters on the way (`cmd.parameters.iter().map(|p| p.rust_type.as_str()).chain(once(cmd.return_type.as_str()))`): the fields a
    harvested iterator element can come from"""
    import json as _json
    out = set()
    seen = set()

    def fields_of_fn(g):
        txt = _json.dumps([b_["stmts"] for i_, b_ in enumerate(g.blocks) if i_ in g.reach_blocks] + [b_["term"].get("args") for i_, b_ in enumerate(g.blocks) if i_ in g.reach_blocks])
        for m_ in re.finditer(r'"adt": "tauri_typegen::models::(\w+)"[^{}]*?"name": "(\w+)"', txt):
            out.add("%s.%s" % (m_.group(1), m_.group(2)))
        for m_ in re.finditer(r'"name": "(\w+)"[^{}]*?"adt": "tauri_typegen::models::(\w+)"', txt):
            out.add("%s.%s" % (m_.group(2), m_.group(1)))

    def go(g, o, d):
        if d < 0:
            return
        t = o[0]
        if t == "proj":
            for pj in o[2]:
                m_ = re.match(r"tauri_typegen::models::(\w+)(?:::\w+)?\.(\w+)$", pj)
                if m_:
                    out.add("%s.%s" % (m_.group(1), m_.group(2)))
            go(g, o[1], d)
        elif t == "call":
            k_ = (o[1].fn.id, o[1].bb)
            if k_ in seen:
                return
            seen.add(k_)
            for a_ in o[1].args[:6]:
                go(o[1].fn, o[1].fn.origin(a_), d - 1)
        elif t in ("aggr", "const") and isinstance(o[1], dict):
            cid = o[1].get("closure")
            if cid in P.fns and cid not in seen:
                seen.add(cid)
                for k2 in P.family(cid):
                    if "{promoted" not in k2:
                        fields_of_fn(P.fns[k2])
            # a function handed over by name (`.flat_map(CommandInfo::rust_types)`)
            fnc = o[1].get("fn") if isinstance(o[1].get("fn"), dict) else None
            tgt = (fnc or {}).get("resolved") or (fnc or {}).get("path")
            if tgt in P.fns and tgt not in seen:
                seen.add(tgt)
                for k2 in P.family(tgt):
                    if "{promoted" not in k2:
                        fields_of_fn(P.fns[k2])
            for a_ in o[1].get("ops", [])[:12]:
                go(g, g.origin(a_), d - 1)
        elif t == "multi":
            for x in o[2]:
                go(g, x, d - 1)
    o0 = f.origin(op)
    go(f, o0, depth)
    # the value is the parameter of a closure: it is an element of whatever the adapter that was handed the closure iterates
    r0 = o0
    while r0[0] == "proj":
        r0 = r0[1]
    if r0[0] == "arg" and "::{closure" in f.id and depth > 2:
        parent = f.id.rsplit("::{closure", 1)[0]
        for k2, g2 in P.fns.items():
            if k2 != parent and parent not in {b_.get("inl") for b_ in g2.d.get("blocks", [])}:
                continue
            for c2 in g2.calls:
                for a_ in c2.args[1:]:
                    oa = g2.origin(a_)
                    if oa[0] in ("aggr", "const") and isinstance(oa[1], dict) and oa[1].get("closure") == f.id and c2.args:
                        out |= model_fields_in_slice(P, g2, c2.args[0], depth - 2)
    return out


def check_builtin_table(S, rule):
    """the names the harvester never looks up (TypeResolver's built-in type set) are the documented primitives and containers only: any other name in
    that table hides a project type of the same name from discovery; shared by C07-D1 and C02-D4"""
    fn = S.fn("TypeResolver", "new")
    if fn is None:
        rule.bad(V(rule.id, "<anchor>", "missing:TypeResolver::new", "anchor not found"))
        return
    names = set()
    for e in walk_block(fn.body):
        if e.get("k") == "mcall" and e["method"] == "insert" and expr_text(e["recv"]) == "type_set" and e["args"]:
            for x in walk(e["args"][0]):
                if x.get("k") == "lit" and x["lit"]["t"] == "str":
                    names.add(x["lit"]["v"])
            if not any(x.get("k") == "lit" for x in walk(e["args"][0])):
                # inserted from a loop variable: collect the literals of the iterated array
                names.add("<computed:%s>" % expr_text(e["args"][0])[:30])
        if e.get("k") == "for":
            for x in walk(e["iter"]):
                if x.get("k") == "lit" and x["lit"]["t"] == "str":
                    names.add(x["lit"]["v"])
    # ... or the table lives in constants and the set is collected from them (`NAMES.iter().chain(..).map(to_string).collect()`): every constant
    # array of string literals that TypeResolver::new mentions belongs to the table
    for e in walk_block(fn.body):
        if e.get("k") == "path":
            c = S.consts.get(e["segs"][-1])
            ce = c.get("expr") if c else None
            while isinstance(ce, dict) and ce.get("k") in ("ref", "paren"):
                ce = ce["expr"]
            if isinstance(ce, dict) and ce.get("k") == "array":
                for x in ce["elems"]:
                    if lit_str(x) is not None:
                        names.add(lit_str(x))
                    else:
                        names.add("<computed:%s>" % expr_text(x)[:30])
        if e.get("k") == "array" and e.get("elems") and all(lit_str(x) is not None for x in e["elems"]):
            names.update(lit_str(x) for x in e["elems"])
    extra = sorted(n for n in names if n not in DOC_BUILTINS and not n.startswith("<computed"))
    if not names:
        rule.bad(V(rule.id, "TypeResolver::new", "builtin-table-empty", "no built-in type names found: re-anchor"))
    elif extra:
        rule.bad(V(rule.id, "TypeResolver::new", "undocumented-builtin:%s" % ",".join(extra), "the built-in type table also lists %s: a project struct or enum with such a name is never looked up, so it is referenced but not declared" % extra))
    else:
        rule.ok("built-in type table = documented primitives and containers (%d names)" % len([n for n in names if not n.startswith("<computed")]))


def check_emitter_reads_used_set(P, rule):
    """who may read TypeCollector.known_structs (the full discovered set): nobody on the emission side.  Declarations are looked up in the map
    that was filtered (unused and mapped names removed); shared by C07-D6 and C18-D6"""
    gens = [t for t in P.trait_impls.get(GEN_MODELS, []) if t in P.fns]
    n = 0
    for fid in sorted(P.reachable(gens)):
        f = P.fns[fid]
        if not fid.startswith(("tauri_typegen::generators", "<tauri_typegen::generators")):
            continue
        for c in f.calls:
            if not c.args or c.bb not in f.reach_blocks:
                continue
            sp = short_path(c.path)
            if not sp.startswith("HashMap::") or sp in ("HashMap::new", "HashMap::insert", "HashMap::clone", "HashMap::clear"):
                continue
            t = f.describe_origin(f.origin(c.args[0]), short=False, deep=3)
            if "known_structs" in t:
                n += 1
                rule.bad(V(rule.id, fid, "emitter-reads-discovered-set:%s" % sp, "%s reads TypeCollector.known_structs (every discovered struct) via %s: names that were filtered out of the declared set (unused, mapped) are found again and declared" % (short_path(fid), sp), c.file, c.line))
    if n == 0:
        rule.ok("no emission-side function reads the collector's full discovered-struct map")


def check_filter_needs_derive(S, r5, fn=None):
    """nothing but a derive list can make the per-attribute serde test answer true: every path on which it answers a constant `true` is one that
    saw `derive` (a doc comment or `#[non_exhaustive]` is an attribute too, and is not a list).  Shared by C07-D5 / C02-D4 and C13-D3 (a comment
    must not change what is generated)."""
    if fn is None:
        fn = S.fn("StructParser", "should_include")
        if fn is None or fn.name != "should_include":
            return
    try:
        from svlib import SVEval as _SV
        paths_ = _SV(S).fn_paths(fn, None, lambda n: None)
    except Exception:  # noqa
        paths_ = []
    for conds_, sv_ in paths_:
        if sv_ == ("num", "True") and not any(re.search(r'is_ident\("derive"\)', c_) and not c_.startswith("not(") for c_ in conds_):
            r5.bad(V(r5.id, "StructParser::" + fn.name, "accepts-without-derive:%s" % ";".join(conds_)[:80], "%s answers true on a path that never saw a derive list (%s): "
                     "an item with a doc comment or another non-list attribute counts as a serde type" % (fn.name, "; ".join(conds_)[:120])))
    if paths_:
        r5.ok("%s: %d paths, a constant true only behind the derive test" % (fn.name, len(paths_)))


def check_serde_filter(S, P, r5):
    """which items count as serde types; shared by C07-D5 and C02-D4"""
    fn = S.fn("StructParser", "should_include")
    if fn is None:
        # the per-attribute test merged into (a helper of) the per-item filter: read it there (the walk looks through new private helpers)
        fn = S.fn("StructParser", "should_include_struct")
        import srclib as _sl
        for e_ in (walk_block(fn.body) if fn is not None else []):
            pass
        if fn is not None:
            called_ = {(e_["method"] if e_.get("k") == "mcall" else e_["func"]["segs"][-1]) for e_ in walk_block(fn.body)
                       if e_.get("k") == "mcall" or (e_.get("k") == "call" and e_["func"].get("k") == "path")}
            helpers_ = [_sl._NEW_HELPERS[n_] for n_ in called_ if n_ in _sl._NEW_HELPERS and _sl._NEW_HELPERS[n_].body is not None]
            if len(helpers_) == 1:
                fn = helpers_[0]
    if fn is None:
        r5.bad(V(r5.id, "<anchor>", "missing:should_include", "anchor not found"))
    else:
        lits = []
        ops = []
        for e in walk_block(fn.body):
            if e.get("k") == "binary" and e["op"] in ("||", "&&"):
                ops.append(e["op"])
            if e.get("k") == "binary" and e["op"] == "==":
                for side in (e["l"], e["r"]):
                    s = lit_str(side)
                    if s:
                        lits.append(s)
            if e.get("k") == "mcall" and e["method"] in ("is_ident", "contains") and e["args"] and lit_str(e["args"][0]):
                lits.append(lit_str(e["args"][0]))
            # the names kept in a constant table (`SERDE_DERIVES.iter().any(|d| ident == d)` / `.contains(..)`)
            if e.get("k") == "path":
                c_ = S.consts.get(e["segs"][-1])
                ce_ = c_.get("expr") if c_ else None
                while isinstance(ce_, dict) and ce_.get("k") in ("ref", "paren"):
                    ce_ = ce_["expr"]
                if isinstance(ce_, dict) and ce_.get("k") == "array":
                    lits += [lit_str(x) for x in ce_["elems"] if lit_str(x) is not None]
            if e.get("k") == "array" and e.get("elems") and all(lit_str(x) is not None for x in e["elems"]):
                lits += [lit_str(x) for x in e["elems"]]
        if set(lits) >= {"derive", "Serialize", "Deserialize"} and "&&" not in ops and set(lits) <= {"derive", "Serialize", "Deserialize"}:
            r5.ok("should_include: derive ∋ Serialize ∨ Deserialize")
        else:
            r5.bad(V(r5.id, "StructParser::should_include", "predicate:%s:%s" % (sorted(set(lits)), sorted(set(ops))), "the serde filter tests %s combined with %s" % (sorted(set(lits)), sorted(set(ops)))))
    if fn is not None:
        check_flag_accumulation(fn, r5)
        check_filter_needs_derive(S, r5, fn)
    # ... asked of every attribute of the item (an item may carry several #[derive(..)] attributes): the per-attribute test is repeated over the whole
    # attribute list, not applied to the first `derive` found
    PARTIAL_SEL = {"find", "find_map", "first", "last", "nth", "take", "skip", "position", "rposition", "get", "split_first", "split_last", "next_back", "peekable"}
    for nm in ("should_include_struct", "should_include_enum"):
        for f in P.find("StructParser::" + nm):
            sites = P.find_call_sites(f.id, lambda c: short_path(c.best) == "StructParser::should_include")
            if not sites:
                # the per-attribute test may have been merged into this function: then its own `derive` test is the site
                sites = P.find_call_sites(f.id, lambda c: c.name == "is_ident" and (c.arg_lit(1, P) if hasattr(c, "arg_lit") else None) == "derive")
            if not sites:
                r5.bad(V(r5.id, f.id, "filter-shape", "%s neither calls the per-attribute test nor looks for `derive` itself" % nm))
                continue
            for (g, c) in sites[:1]:
                srcs = P.iteration_sources(f.id, g, c)
                sel = sorted({c2.name for k2 in P.family(f.id) if "{promoted" not in k2 for c2 in P.fns[k2].calls
                              if c2.bb in P.fns[k2].reach_blocks and c2.name in PARTIAL_SEL and ("Attribute" in " ".join(c2.generics + [c2.self_ty or "", c2.path]))})
                if srcs and any("attrs" in x for x in srcs) and not sel:
                    r5.ok("%s: the derive test is repeated over every attribute of the item" % nm)
                else:
                    r5.bad(V(r5.id, f.id, "derive-test-not-over-all-attributes:%s" % (",".join(sel) or "no-iteration"),
                             "%s applies the serde-derive test to %s instead of every attribute: `#[derive(Debug)] #[derive(Serialize)]` is not recognised as a serde type"
                             % (nm, ("the attribute picked by " + ", ".join(sel)) if sel else "something that is not an iteration over the item's attributes (%s)" % srcs), c.file, c.line))
    for nm in ("index_type_definitions", "extract_type_from_ast"):
        fs = P.find("CommandAnalyzer::" + nm)
        for f in fs:
            used = {short_path(c.best) for (_, c) in P.find_call_sites(f.id, lambda c: True)}
            if {"StructParser::should_include_struct", "StructParser::should_include_enum"} <= used:
                r5.ok("%s consults should_include_struct and should_include_enum" % nm)
            else:
                r5.bad(V(r5.id, f.id, "filter-not-consulted", "%s does not consult the serde filter for structs and enums" % nm))


def check_flag_accumulation(fn, rule):
    """a flag that records "one of the listed items matched" is only ever set to `true` (or initialised to false): an unguarded
    `flag = <test on the current item>` lets a later non-matching item reset it, so the verdict depends on the order of the list"""
    from srclib import children
    flags = set()
    for st in fn.body:
        pass
    stack = [x for st in fn.body for x in stmt_exprs(st)]
    # collect `let mut flag = false` declarations anywhere in the function
    def lets(stmts):
        for st in stmts or []:
            if isinstance(st, dict) and st.get("k") == "let" and st.get("init") is not None and st["init"].get("k") == "lit" and st["init"]["lit"]["t"] == "bool":
                for b in pat_bindings(st["pat"]):
                    flags.add(b)
            for e in stmt_exprs(st) if isinstance(st, dict) else []:
                for x in walk(e):
                    for key in ("then", "stmts", "body"):
                        v = x.get(key)
                        if isinstance(v, list):
                            lets(v)
                    if x.get("k") == "closure" and isinstance(x.get("body"), dict) and x["body"].get("k") == "block":
                        lets(x["body"]["stmts"])
    lets(fn.body)
    for e in walk_block(fn.body):
        if e.get("k") == "assign" and e["l"].get("k") == "path" and len(e["l"]["segs"]) == 1 and e["l"]["segs"][0] in flags:
            r = e["r"]
            if r.get("k") == "lit" and r["lit"]["t"] == "bool" and r["lit"]["v"] is True:
                rule.ok("%s = true (monotone)" % e["l"]["segs"][0])
            else:
                rule.bad(V(rule.id, fn.qname, "flag-reset:%s" % e["l"]["segs"][0],
                           "`%s = %s` can reset the match flag on a later list item: whether the type counts as a serde type then depends on the order of its derive list"
                           % (e["l"]["segs"][0], expr_text(r)[:60]), fn.file, e.get("ln")))


def check_closure_before_insert(P, r3):
    """every insertion into the declared set is the output of the transitive closure; shared by C07-D3 and C02-D4"""
    gens = [t for t in P.trait_impls.get(GEN_MODELS, []) if t in P.fns]
    for gid in gens:
        f = P.fns[gid]
        ins = [c for c in f.calls if (short_path(c.path) == "HashMap::insert" or c.name == "extend") and "StructInfo" in " ".join(c.generics + [c.self_ty or ""]) and c.bb in f.reach_blocks]
        dn = [c for c in f.calls if short_path(c.best) == "TypeCollector::discover_nested_dependencies"]
        def strip(o):
            while o[0] == "proj":
                o = o[1]
            return o

        def ident(o):
            o = strip(o)
            if o[0] == "call":
                return ("call", o[1].bb)
            if o[0] == "arg":
                return ("arg", o[1])
            return ("other", str(o)[:40])

        def iterated_collection(key_op):
            """the collection whose iteration yields the inserted key: key <- [clone] <- next <- into_iter/iter <- collection"""
            o = strip(f.origin(key_op))
            if o[0] == "call" and o[1].name in ("clone", "to_string", "to_owned") and o[1].args:
                o = strip(f.origin(o[1].args[0]))
            if not (o[0] == "call" and o[1].name == "next" and o[1].args):
                return None
            o = strip(f.origin(o[1].args[0]))
            if not (o[0] == "call" and o[1].name in ("into_iter", "iter", "drain", "keys", "into_keys") and o[1].args):
                return None
            return ident(f.origin(o[1].args[0]))
        # the closure runs over the full discovered set (the generator's parameter), like collect_used_types does — not over the set collected so far
        def struct_map_arg(c):
            """the argument bound to the callee's `&HashMap<String, StructInfo>` parameter (by its type, wherever the receiver or the order puts it)"""
            h = P.fns.get(c.best)
            if h is None:
                return None
            hits = [i for i in range(min(len(c.args), h.arg_count)) if "HashMap<" in h.locals[i + 1] and "StructInfo" in h.locals[i + 1] and "&mut" not in h.locals[i + 1]]
            return c.args[hits[0]] if len(hits) == 1 else None
        cu0 = [c for c in f.calls if short_path(c.best) == "TypeCollector::collect_used_types"]
        universe = ident(f.origin(struct_map_arg(cu0[0]))) if cu0 and struct_map_arg(cu0[0]) is not None else None
        for d in dn:
            u = ident(f.origin(struct_map_arg(d))) if struct_map_arg(d) is not None else None
            if universe is not None and u == universe and u[0] == "arg":
                r3.ok("%s: discover_nested_dependencies searches the discovered set" % short_path(gid))
            else:
                r3.bad(V(r3.id, gid, "closure-universe", "discover_nested_dependencies looks field types up in %s, not in the discovered set %s that collect_used_types uses: payload fields defined outside that set stay undeclared"
                         % (u, universe), d.file, d.line))
        for c in ins:
            doms = [d for d in dn if f.dominates(d.bb, c.bb)]
            if not doms:
                r3.bad(V(r3.id, gid, "insert-without-closure", "types are inserted into the declared set without closing over their field types first", c.file, c.line))
                continue
            # ... and what is inserted is the *output* of that closure (its `&mut` accumulator), not the seed set it started from
            if c.name == "extend" and len(c.args) > 1:
                # `declared.extend(closure_output.into_iter().filter_map(|name| lookup))`: the collection under the iterator adapters
                o_ = strip(f.origin(c.args[1]))
                while o_[0] == "call" and o_[1].args and o_[1].name in ("filter_map", "map", "filter", "into_iter", "iter", "cloned", "copied", "drain", "flat_map", "keys", "into_keys"):
                    o_ = strip(f.origin(o_[1].args[0]))
                src = ident(o_)
            else:
                src = iterated_collection(c.args[1]) if len(c.args) > 1 else None
            outs = [ident(f.origin(d.args[-1])) for d in doms if d.args]
            if src is not None and src in outs:
                r3.ok("%s: the declared set receives the output of discover_nested_dependencies" % short_path(gid))
            else:
                r3.bad(V(r3.id, gid, "insert-not-from-closure", "the names inserted into the declared set are not the accumulator discover_nested_dependencies filled (%s vs %s): nested payload types stay undeclared"
                         % (src, outs), c.file, c.line))
        if not ins:
            r3.bad(V(r3.id, gid, "event-types-not-declared", "%s never inserts the (closed) event payload types into the declared set" % short_path(gid)))


def check_harvester_normalisation(S, rule):
    """sibling agreement: every sanitiser parse_type_structure applies to its input (it re-enters itself for every nested type, so the sanitiser
    runs at every level) is also applied inside the *recursive* harvester, not only in its non-recursive wrapper; shared by C07-D4 and C09-D4"""
    pts = S.fn("TypeResolver", "parse_type_structure")
    rec = find_harvester(S)
    if pts is None or rec is None:
        rule.bad(V(rule.id, "<anchor>", "missing:parser-or-harvester", "anchor not found"))
        return
    def sanitiser_calls(fn):
        out = set()
        for e in walk_block(fn.body):
            if e.get("k") == "call" and e["func"].get("k") == "path":
                name = e["func"]["segs"][-1]
                for g in S.fns:
                    if g.name == name and g.body is not None and g.sig.get("ret", "").replace(" ", "") in ("&str", "&'astr") and "type_resolver" in g.file:
                        out.add(name)
        return out
    want = sanitiser_calls(pts)
    have = sanitiser_calls(rec)
    selfrec = any((e.get("k") == "mcall" and e["method"] == rec.name) or (e.get("k") == "call" and e["func"].get("k") == "path" and e["func"]["segs"][-1] == rec.name)
                  for e in walk_block(rec.body))
    if not selfrec:
        rule.bad(V(rule.id, "CommandAnalyzer::extract_type_names_recursive", "not-recursive", "the harvester does not recurse into nested types any more: re-anchor"))
    for w in sorted(want):
        if w in have:
            rule.ok("harvester applies %s at every level, like parse_type_structure" % w)
        else:
            rule.bad(V(rule.id, "CommandAnalyzer::extract_type_names_recursive", "harvester-misses-normalisation:%s" % w,
                       "parse_type_structure applies %s to every (nested) type text, the recursive harvester does not: `Vec<crate::m::Zeta>` renders ZetaSchema but records no edge/name for Zeta" % w))


def check_type_text_splitting(P, rule):
    """the functions that take type text apart (the resolver's extractors and the recursive harvester) remove exactly one delimiter pair and know a
    constructor by its literal name: shared by C07-D4, C09-D4, C05-D2 and C02-D4.
      * `trim_start_matches('(')` / `trim_end_matches('>')` remove *every* leading / trailing delimiter: `((u32, u32), Tile)` and `Set<Vec<u32>>` lose
        the brackets of their first / last element too;
      * a branch that keys on the first `<` anywhere in the text ("any other generic wrapper") also fires for tuples and other texts that merely
        contain a generic element, before the branch meant for them."""
    DELIMS = set("<>()[]")
    n = 0
    for fid in sorted(P.fns):
        if "{promoted#" in fid:
            continue
        in_resolver = fid.startswith("tauri_typegen::analysis::type_resolver::")
        in_harvester = bool(re.match(r"tauri_typegen::analysis::CommandAnalyzer::extract_type_names", fid)) or (
            "::{closure" not in fid and fid.startswith("tauri_typegen::analysis::") and any(c_.best == fid for c_ in P.fns[fid].calls)
            and any(short_path(c_.best).endswith("split_top_level_commas") for c_ in P.fns[fid].calls) and "HashSet<std::string::String>" in " ".join(P.fns[fid].locals[1:P.fns[fid].arg_count + 1]))
        if not (in_resolver or in_harvester):
            continue
        f = P.fns[fid]
        n += 1
        for c in f.calls:
            if c.bb not in f.reach_blocks or len(c.args) < 2:
                continue
            k_ = op_const(c.args[1]) or {}
            pat = k_.get("char") if "char" in k_ else (c.arg_str(1) if hasattr(c, "arg_str") else None)
            if pat is None and hasattr(c, "arg_lit"):
                pat = c.arg_lit(1, P)
            if not isinstance(pat, str) or not pat:
                continue
            if c.name in ("trim_start_matches", "trim_end_matches", "trim_matches") and set(pat) & DELIMS:
                rule.bad(V(rule.id, fid, "delimiter-overtrim:%s:%s" % (c.name, pat), "%s removes every `%s` at that end of the type text, not the one delimiter of this constructor: "
                           "a nested type that begins/ends with the same delimiter loses its own brackets" % (c.name, pat), c.file, c.line))
            if in_resolver and pat == "::" and c.name in ("find", "split_once", "splitn", "split_terminator"):
                rule.bad(V(rule.id, fid, "qualifier-cut-at-first-separator:%s" % c.name, "%s cuts a path-qualified type name at the *first* `::` (%s): of `a::b::Type` the text "
                           "`b::Type` is kept, which names no declared type" % (short_path(fid), c.name), c.file, c.line))
            if in_resolver and re.search(r"::parse_type_structure$", fid) and c.name in ("find", "split_once", "splitn", "split") and pat == "<":
                rule.bad(V(rule.id, fid, "generic-catch-all:%s" % c.name, "the resolver's dispatcher branches on `%s('<')` anywhere in the text instead of on a constructor's literal "
                           "prefix: texts that merely contain a generic element (a tuple `(u32, Option<T>)`, a reference) take that branch before their own" % c.name, c.file, c.line))
            if in_harvester and c.name in ("find", "rfind", "split_once", "rsplit_once", "splitn", "split") and pat in ("<", ">"):
                rule.bad(V(rule.id, fid, "generic-catch-all:%s" % c.name, "the harvester branches on `%s('%s')` anywhere in the text instead of on a constructor's literal prefix: "
                           "texts that merely contain a generic element (tuples, references) take that branch" % (c.name, pat), c.file, c.line))
    if n:
        rule.ok("%d type-text functions: one delimiter pair per constructor, constructors known by literal prefix" % n)
    else:
        rule.bad(V(rule.id, "<anchor>", "missing:type-text-functions", "neither the resolver's extractors nor the recursive harvester were found"))


def check(ctx):
    P = ctx.P
    S = ctx.S
    reach = P.reachable(ENTRY_POINTS)
    rules = []

    # ---------------------------------------------------------------- D1
    r1 = Rule("C07-D1-seeds", "D1",
              "extract_type_names is applied to parameter, return, channel-message, event-payload and field type strings; "
              "collect_referenced_types_from_structure to the five corresponding structures",
              "a seed site that is not harvested makes types only reachable from it undeclared")
    seen = {}
    seen2 = {}
    for fid in sorted(reach):
        f = P.fns[fid]
        for c in f.calls:
            sp = short_path(c.best)
            if sp in ("CommandAnalyzer::extract_type_names", "CommandAnalyzer::extract_type_names_recursive") and len(c.args) > 1:
                t = f.describe_origin(f.origin(c.args[1]), short=False, deep=3)
                via = model_fields_in_slice(P, f, c.args[1])
                for k in SEED_FIELDS:
                    if "models::" + k in t or k in via:
                        seen.setdefault(k, short_path(fid))
            if sp == "TypeCollector::collect_referenced_types_from_structure" and c.args:
                t = f.describe_origin(f.origin(c.args[0]), short=False, deep=3)
                via = model_fields_in_slice(P, f, c.args[0])
                for k in STRUCT_FIELDS:
                    if "models::" + k in t or k in via:
                        seen2.setdefault(k, short_path(fid))
    TRUNC = {"take", "skip", "step_by", "take_while", "skip_while", "nth", "last", "rev"}
    for fid in sorted(reach):
        f = P.fns[fid]
        if not any(short_path(c.best) in ("CommandAnalyzer::extract_type_names", "TypeCollector::collect_referenced_types_from_structure") for c in f.calls) \
                and not any("::{closure" in k and any(short_path(c.best) == "CommandAnalyzer::extract_type_names" for c in P.fns[k].calls) for k in P.family(fid)):
            continue
        for c in f.calls:
            if c.trait in ("std::iter::Iterator", "std::iter::DoubleEndedIterator") and c.name in TRUNC:
                r1.bad(V(r1.id, fid, "truncated-iteration:%s" % c.name, "the iteration that feeds type harvesting is truncated by .%s(..)" % c.name, c.file, c.line))
    # the harvested work list only grows: nothing removes names from it before the resolution step has seen every file
    SHRINK = {"HashSet::retain", "HashSet::remove", "HashSet::clear", "HashSet::drain", "HashSet::take", "HashSet::extract_if",
              "BTreeSet::retain", "BTreeSet::remove", "BTreeSet::clear", "Vec::retain", "Vec::clear", "Vec::truncate", "Vec::drain"}
    for fid in sorted(reach):
        f = P.fns[fid]
        scope = [f] + [P.fns[k] for k in P.family(fid) if "::{closure" in k]
        if "{closure" in fid:
            continue
        harvests = [c for g in scope for c in g.calls
                    if short_path(c.best) in ("CommandAnalyzer::extract_type_names", "CommandAnalyzer::extract_type_names_recursive")]
        if not harvests:
            continue
        # the accumulator is captured by the harvesting closures, so it is identified by its type (a set of names) within this function
        for g in scope:
            for c in g.calls:
                if short_path(c.path) in SHRINK and "String" in " ".join(c.generics[:1] + [c.self_ty or ""]):
                    # a clear() that dominates every other use of the very set it empties makes that set a per-iteration scratch value
                    # (indistinguishable from creating it at that point): nothing harvested is lost
                    if c.name == "clear" and g is f and c.args:
                        def root_(o):
                            while o[0] == "proj":
                                o = o[1]
                            return o
                        o0 = root_(f.origin(c.args[0]))
                        if o0[0] == "call" and o0[1].name in ("new", "default", "with_capacity"):
                            uses = [u for u in f.calls if u is not c and u is not o0[1] and any((lambda x: x[0] == "call" and x[1] is o0[1])(root_(f.origin(a_))) for a_ in u.args)]
                            if uses and all(f.dominates(c.bb, u.bb) for u in uses):
                                r1.ok("%s: clear() of a scratch set dominates its %d other uses" % (short_path(fid), len(uses)))
                                continue
                    r1.bad(V(r1.id, fid, "worklist-shrunk:%s" % short_path(c.path), "names are removed from a name set by %s in the function that harvests type names, before resolution has seen every file" % short_path(c.path), c.file, c.line))
        r1.ok("%s: the harvested work list is only extended" % short_path(fid))
    check_builtin_table(S, r1)
    for k, what in SEED_FIELDS.items():
        if k in seen:
            r1.ok("extract_type_names(%s) in %s" % (k, seen[k]))
        else:
            r1.bad(V(r1.id, "CommandAnalyzer", "unharvested-seed:%s" % k, "type names are never harvested from %s (%s)" % (what, k)))
    # the same collection written as an iterator chain: the structure is read in one closure and handed to the collecting closure by the
    # adapters in between; within the family of a function that collects, a read of the field counts (weaker: the read is not followed
    # through the chain, but a site that stops collecting a structure stops reading it there as well)
    def reads_field(g, dotted):
        adt_, fld_ = dotted.rsplit(".", 1)
        for blk in g.blocks:
            for st in blk["stmts"]:
                rv = st.get("rv") or {}
                pls = [rv.get("place")] + [x.get("copy") or x.get("move") for x in ([rv.get("op")] if isinstance(rv.get("op"), dict) else [])]
                for pl in pls:
                    if pl and any(pj.get("k") == "field" and pj.get("name") == fld_ and (pj.get("adt") or "").endswith("::" + adt_) for pj in pl.get("p", [])):
                        return True
        return False
    for k in STRUCT_FIELDS:
        if k in seen2:
            continue
        for fid in sorted(reach):
            if "::{closure" in fid or fid not in P.fns:
                continue
            fam = [P.fns[x] for x in P.family(fid) if "{promoted" not in x]
            if any(short_path(c.best) == "TypeCollector::collect_referenced_types_from_structure" for g in fam for c in g.calls) and any(reads_field(g, k) for g in fam if "::{closure" in g.id):
                seen2.setdefault(k, short_path(fid) + " (iterator chain)")
    for k, what in STRUCT_FIELDS.items():
        if k in seen2:
            r1.ok("collect_referenced_types_from_structure(%s) in %s" % (k, seen2[k]))
        else:
            r1.bad(V(r1.id, "TypeCollector", "uncollected-structure:%s" % k, "referenced types are never collected from %s (%s)" % (what, k)))
    # the payload type of every emit is a root: recording an emit must not depend on what was recorded before (shared with C12-D3)
    from c12 import check_every_emit_recorded
    check_every_emit_recorded(P, r1)
    check_stale_harvest_reads(P, r1, reach)
    # the payload type of `emit("e", v)` with `let v = Type::ctor(..)` is a root as well: it exists only if the initialiser form is recognised
    from c12 import check_init_type_selector
    check_init_type_selector(P, r1)
    r1.require_floor(10, "seed sites")
    rules.append(r1)

    # ---------------------------------------------------------------- D2
    r2 = Rule("C07-D2-exhaustive-collector", "D2",
              "collect_referenced_types_from_structure matches every TypeStructure variant without a wildcard arm and passes every bound "
              "sub-structure to a recursive call (Map: key and value; Tuple: every element)",
              "an arm that does not recurse (or recurses into the value only) loses the types nested at that position")
    variants = S.enums.get("TypeStructure", {}).get("variants", [])
    mfc = P.find("TypeCollector::collect_referenced_types_from_structure")
    if not mfc or not variants:
        r2.bad(V(r2.id, "<anchor>", "missing:collector-or-enum", "anchor not found"))
    else:
        # decided on the type-checked body (private helpers spliced in): for every variant and every field of it that holds structures, the field's
        # value flows into the recursive call — all of it when the field is a list — and the name of a Custom node flows into the set.  However the
        # traversal is written: one match with a call per arm, `if let` + a helper listing the children, an iterator chain.
        f = mfc[0]
        COLL = "TypeCollector::collect_referenced_types_from_structure"
        sp = [i for i in range(1, f.arg_count + 1) if "TypeStructure" in f.locals[i] and "HashSet" not in f.locals[i]]
        PARTIAL = {"first", "last", "get", "nth", "take", "skip", "find", "position", "take_while", "skip_while", "step_by", "split_first", "split_last",
                   "first_chunk", "last_chunk", "pop", "min", "max", "min_by", "max_by", "min_by_key", "max_by_key", "find_map", "any", "all", "next_back", "rev_first"}
        if len(sp) != 1:
            r2.bad(V(r2.id, COLL, "collector-signature", "expected one structure parameter"))
        else:
            def alias_of_param(l, _memo={}):
                if l not in _memo:
                    o = f.origin({"l": l})
                    if o[0] == "proj" and all(x == "deref" for x in o[2]):
                        o = o[1]            # a reborrow `&*type_structure` handed to a helper
                    _memo[l] = (l == sp[0]) or (o[0] == "arg" and o[1] == sp[0])
                return _memo[l]

            def seed_for(vname, fname):
                def seed(pl):
                    pr = pl.get("p", [])
                    if not alias_of_param(pl["l"]):
                        return False
                    for i_, p_ in enumerate(pr):
                        if p_.get("k") == "downcast" and p_.get("variant") == vname and i_ + 1 < len(pr) and pr[i_ + 1].get("k") == "field" \
                                and str(pr[i_ + 1].get("name", pr[i_ + 1].get("i"))) == fname:
                            return True
                    return False
                return seed

            def recursion_in(c, hot):
                if short_path(c.best) == COLL and (sp[0] - 1) in hot:
                    return True
                # handed to an adapter whose closure recurses (`types.iter().for_each(|t| collect(t, used))`)
                for a_ in c.args:
                    o_ = f.origin(a_)
                    cid_ = o_[1].get("closure") if o_[0] in ("aggr", "const") and isinstance(o_[1], dict) else None
                    if cid_ in P.fns and any(short_path(c2.best) == COLL for k2 in P.family(cid_) for c2 in P.fns[k2].calls):
                        return True
                return False
            for v in variants:
                nm = v["name"]
                for fld in v.get("fields", []):
                    ty = fld["ty"].replace(" ", "")
                    if nm == "Custom":
                        T_, hits = f.forward_taint(seed_for(nm, fld["name"]))
                        if any(c.name in ("insert", "extend") and "HashSet" in (c.path + " " + (c.self_ty or "")) and any(i_ >= 1 for i_ in hot) for c, hot in hits):
                            r2.ok("Custom(name) inserts the name")
                        else:
                            r2.bad(V(r2.id, COLL, "custom-not-inserted", "Custom names are not added to the set"))
                        continue
                    if "TypeStructure" not in ty:
                        continue
                    T_, hits = f.forward_taint(seed_for(nm, fld["name"]))
                    rec = any(recursion_in(c, hot) for c, hot in hits)
                    why = None
                    if not rec:
                        why = "does not recurse into"
                    elif ty.startswith("Vec<"):
                        part = sorted(set(c.name for c, _ in hits if c.name in PARTIAL))
                        every = any(c.name in ("iter", "into_iter", "iter_mut", "drain") for c, _ in hits)
                        if part or not every:
                            why = "recurses into only part (%s) of" % (",".join(part) or "no iteration")
                    if why:
                        r2.bad(V(r2.id, COLL, "no-recursion:%s:%s" % (nm, fld["name"]), "the collector %s %s.%s" % (why, nm, fld["name"])))
                    else:
                        r2.ok("%s.%s flows into the recursive call" % (nm, fld["name"]))
    r2.require_floor(7, "collector arms")
    rules.append(r2)

    # ---------------------------------------------------------------- D3 / D6
    r3 = Rule("C07-D3-closure-before-insert", "D3",
              "in each generate_models every insertion into the declared set (besides collect_used_types, which closes transitively itself) is "
              "dominated by a discover_nested_dependencies call",
              "types inserted without closing over their fields leave nested types (Outer{inner: Inner}) undeclared")
    r6 = Rule("C07-D6-minimality", "D6",
              "the struct map handed to the types renderer originates from collect_used_types, not from the full discovered set; Result keeps only the success type",
              "emitting the discovered set declares unreachable decoy types; keeping error arms declares types that only surface as rejections")
    check_closure_before_insert(P, r3)
    # the analyzer's own closure (resolve_types_lazily) loses nothing it harvested from a field (shared with C09-D4 and C18-D6)
    from c09 import check_harvest_reaches_record
    check_harvest_reaches_record(P, r3)
    gens = [t for t in P.trait_impls.get(GEN_MODELS, []) if t in P.fns]
    for gid in gens:
        f = P.fns[gid]
        cu = [c for c in f.calls if short_path(c.best) == "TypeCollector::collect_used_types"]
        if not cu:
            r3.bad(V(r3.id, gid, "no-collect_used_types", "generate_models does not compute the used set"))
        # D6
        rend = [c for c in f.calls if c.best.endswith("generate_types_file_content")]
        for c in rend:
            okm = False
            for a in c.args:
                t = f.describe_origin(f.origin(a), short=False, deep=3)
                if "collect_used_types" in t or "used_structs" in t:
                    okm = True
            bad = any("arg:discovered_structs" == f.describe_origin(f.origin(a), short=False, deep=0) for a in c.args)
            if okm and not bad:
                r6.ok("%s: renderer receives the used set" % short_path(gid))
            else:
                r6.bad(V(r6.id, gid, "renderer-receives-discovered", "the types renderer is not fed from collect_used_types", c.file, c.line))
    # collect_used_types closes transitively and filters by membership
    cut = P.find("TypeCollector::collect_used_types")
    for f in cut:
        # the seed set handed to discover_nested_dependencies is a snapshot (clone) of the used set: nothing may be added to the used set after the
        # snapshot and before the closure, else what was added late is declared but its own field types are never walked
        from rulelib import blocks_reachable_from as _brf
        dns = [c for c in f.calls if short_path(c.best) == "TypeCollector::discover_nested_dependencies" and c.bb in f.reach_blocks]
        for dnc in dns:
            o = f.origin(dnc.args[1]) if len(dnc.args) > 1 else ("?",)
            while o[0] == "proj":
                o = o[1]
            if not (o[0] == "call" and o[1].name == "clone"):
                continue
            snap = o[1]
            after = _brf(f, snap.bb)
            late = []
            for c in f.calls:
                if c.bb not in after or c.bb == dnc.bb or not f.dominates(snap.bb, c.bb) or c.bb not in f.reach_blocks:
                    continue
                if f.dominates(dnc.bb, c.bb):
                    continue
                direct = short_path(c.best) == "TypeCollector::collect_referenced_types_from_structure" or short_path(c.path) in ("HashSet::insert", "HashSet::extend")
                via_closure = False
                for a in c.args:
                    oo = f.origin(a)
                    cl = oo[1].get("closure") if oo[0] == "aggr" and oo[1].get("agg") == "closure" else None
                    if cl and cl in P.fns and any(short_path(x.best) == "TypeCollector::collect_referenced_types_from_structure" or short_path(x.path) == "HashSet::insert" for x in P.fns[cl].calls):
                        via_closure = True
                if direct or via_closure:
                    late.append(c)
            if late:
                r3.bad(V(r3.id, f.id, "seed-snapshot-stale:%s" % short_path(late[0].best), "names are still added to the used set (%s) after the snapshot that seeds discover_nested_dependencies was taken: they are declared, but the types their fields reference are not" % short_path(late[0].best), late[0].file, late[0].line))
            else:
                r3.ok("collect_used_types: the closure is seeded with the complete used set")
        if any(short_path(c.best) == "TypeCollector::discover_nested_dependencies" for c in f.calls):
            r3.ok("collect_used_types closes over nested dependencies")
        else:
            r3.bad(V(r3.id, f.id, "no-closure", "collect_used_types does not close over nested dependencies"))
        clos = [P.fns[k] for k in P.family(f.id) if "::{closure" in k]
        # the result is the discovered structs restricted to the used names — `all.iter().filter(|(n, _)| used.contains(n))`, or the other way
        # round, `used.iter().filter_map(|n| all.get_key_value(n))`: either way an intersection, never the whole discovered map
        by_lookup = any(short_path(c.path) in ("HashMap::get_key_value", "HashMap::get", "HashMap::remove_entry", "HashMap::remove", "HashMap::contains_key")
                        and "StructInfo" in " ".join(c.generics) for g in clos + [f] for c in g.calls if c.bb in g.reach_blocks)
        if any(any(short_path(c.path) == "HashSet::contains" for c in g.calls) for g in clos) or by_lookup:
            r6.ok("collect_used_types keeps only names contained in the used set")
        else:
            r6.bad(V(r6.id, f.id, "no-membership-filter", "collect_used_types does not filter the discovered structs by membership in the used set"))
    pts = S.fn("TypeResolver", "parse_type_structure")
    if pts is not None:
        txt = " ".join(expr_text(e) for e in walk_block(pts.body) if e.get("k") == "mcall")
        if "extract_result_ok_type" in txt:
            r6.ok("Result<T, E> keeps only the success type")
        else:
            r6.bad(V(r6.id, "TypeResolver::parse_type_structure", "result-arm", "the Result arm does not use the success type only"))
    check_emitter_reads_used_set(P, r6)
    from c10 import struct_emitter_total
    pend_, oks_ = [], []
    struct_emitter_total(P, pend_, oks_, rid=r6.id)
    for v_ in pend_:
        r6.bad(v_)
    for t_ in oks_:
        r6.ok(t_)
    r3.require_floor(3, "insertion/closure facts")
    r6.require_floor(4, "minimality facts")
    rules += [r3, r6]

    # ---------------------------------------------------------------- D4
    r4 = Rule("C07-D4-harvest-splitting", "D4",
              "extract_type_names_recursive splits Result/map/tuple argument lists with the depth-aware splitter only",
              "a naive comma split loses the types behind the first nested comma")
    fn = find_harvester(S)
    if fn is None:
        r4.bad(V(r4.id, "<anchor>", "missing:extract_type_names_recursive", "anchor not found"))
    else:
        from srclib import walk_block_deep
        body_deep = list(walk_block_deep(S, fn))        # the function and the private helpers a clean-up may have moved parts of it into
        naive = [e for e in body_deep if e.get("k") == "mcall" and e["method"] in ("find", "split", "split_once", "splitn", "rfind") and e["args"] and e["args"][0].get("k") == "lit" and e["args"][0]["lit"]["v"] == ","]
        good = [e for e in body_deep if e.get("k") == "call" and expr_text(e["func"]).endswith("split_top_level_commas")]
        for e in naive:
            r4.bad(V(r4.id, "CommandAnalyzer::extract_type_names_recursive", "naive-comma:%s on %s" % (e["method"], expr_text(e["recv"])), "%s(',') on type text" % e["method"], fn.file, e["ln"]))
        for e in good:
            r4.ok("split_top_level_commas(%s)" % expr_text(e["args"][0]))
        check_harvester_normalisation(S, r4)
        check_type_text_splitting(P, r4)
        prefixes = sorted(set(lit_str(e["args"][0]) for e in body_deep if e.get("k") == "mcall" and e["method"] == "starts_with" and e["args"] and lit_str(e["args"][0])))
        # ... or keeps the constructor prefixes in a constant table it loops over (`GENERIC_WRAPPERS: [(&str, ..); 7]`), tested with
        # starts_with / strip_prefix of the table entry
        from srclib import walk as _walk
        prefixes = set(prefixes) | set(lit_str(e["args"][0]) for e in body_deep if e.get("k") == "mcall" and e["method"] == "strip_prefix" and e["args"] and lit_str(e["args"][0]))
        uses_table_test = any(e.get("k") == "mcall" and e["method"] in ("starts_with", "strip_prefix") and e["args"] and lit_str(e["args"][0]) is None for e in body_deep)
        if uses_table_test:
            for e in body_deep:
                if e.get("k") == "path" and e["segs"][-1] in S.consts:
                    ce_ = S.consts[e["segs"][-1]].get("expr")
                    for x_ in (_walk(ce_) if isinstance(ce_, dict) else []):
                        v_ = lit_str(x_)
                        if v_ is not None and v_.endswith("<"):
                            prefixes.add(v_)
        need = {"Result<", "Option<", "Vec<", "HashMap<", "BTreeMap<", "HashSet<", "BTreeSet<"}
        if need <= set(prefixes):
            r4.ok("harvester unwraps %s" % sorted(need))
        else:
            r4.bad(V(r4.id, "CommandAnalyzer::extract_type_names_recursive", "unwrapped-constructors:%s" % ",".join(sorted(need - set(prefixes))), "the harvester does not unwrap %s" % sorted(need - set(prefixes))))
    r4.require_floor(3, "harvest facts")
    rules.append(r4)

    # ---------------------------------------------------------------- D5
    r5 = Rule("C07-D5-serde-filter", "D5",
              "should_include: attribute is a `derive` list containing a path whose last segment is Serialize or Deserialize; both "
              "index_type_definitions and extract_type_from_ast consult it for structs and enums",
              "`&&` instead of `||` drops Serialize-only types; indexing without the filter emits non-serde types")
    check_serde_filter(S, P, r5)
    r5.require_floor(3, "filter facts")
    rules.append(r5)

    return finish(
        PROP, ctx, rules,
        "Who-may-call/argument-provenance facts for the five seed sites, arm-by-arm coverage of the structure collector, dominance of the "
        "transitive closure over every insertion, literal form of the serde filter, provenance of the emitted set.",
        ["completeness for type spellings the string scanner does not understand beyond the splitter rule (path-qualified names, generics of user types)",
         "types reachable only through a mapped type are still declared (C18 removes the mapped name itself)"],
        ["Rust's match exhaustiveness check guarantees that, without a wildcard arm, every variant has an arm"])

"""C17 — a failed run is never remembered as up to date.

Decided (structural, necessary) clauses:
  D1  every reachable call of GenerationCache::save is preceded by the *success* edge of the
      generation step (generate_models) and of every other filesystem-mutating step that can
      precede it, and nothing mutating the filesystem follows it inside the same function;
      load/needs_regeneration/new never write.
  D2  every Result produced by a filesystem-mutating step on the generation path is propagated
      with `?`/returned (never dropped, `.ok()`-ed or logged away), up to main where Err => exit(!=0).
  D3  the cache record is computed from the same values that were handed to the generator.
"""
import re
from common import Rule, V, finish
from mirlib import ENTRY_POINTS, short_path, op_const
from rulelib import (result_killed_unexamined, is_fs_mut, calls_named, try_propagated, continue_edge_of_try,
                     blocks_reachable_from, strip_generics, is_cache_new, arg_by_type, ARG_TYPES)

PROP = "C17"
SAVE = "tauri_typegen::build::generation_cache::GenerationCache::save"
CACHE_NEW = "tauri_typegen::build::generation_cache::GenerationCache::new"
READONLY_PREFIXES = ("load", "needs_regeneration", "new", "cache_path", "compare_with_cache", "hash_", "combine_hashes", "compute_hash")
GEN_MODELS = "tauri_typegen::generators::base::BaseBindingsGenerator::generate_models"


def is_call_to(c, fid):
    return (c.resolved == fid) or (c.path == fid) or strip_generics(c.path) == fid or (c.resolved and strip_generics(c.resolved) == fid)


def reach_without_edge(f, start, goal, removed):
    """can `goal` be reached from `start` without taking edge `removed`=(block,label)?"""
    from collections import deque
    seen = {start}
    dq = deque([start])
    while dq:
        x = dq.popleft()
        for lab, y in f.succ_edges(x):
            if (x, lab) == removed:
                continue
            if y == goal:
                return True
            if y not in seen:
                seen.add(y)
                dq.append(y)
    return False


def check(ctx):
    P = ctx.P
    reach = P.reachable(ENTRY_POINTS)
    memo = {}
    fsreach = lambda fid: P.reaches(fid, is_fs_mut, memo)  # noqa: E731
    rules = []

    # ---------------------------------------------------------------- D1
    r1 = Rule("C17-D1-save-after-success", "D1",
              "each reachable call of GenerationCache::save is dominated by the success edge of "
              "generate_models(..)? and cannot be reached from another filesystem-mutating step except "
              "through that step's success edge; no filesystem mutation follows it in the same function",
              "saving the record before (or regardless of) a failed write makes the next non-forced run answer 'up to date' over missing/stale files")
    save_sites = []
    for fid in sorted(reach):
        f = P.fns[fid]
        for c in f.calls:
            if is_call_to(c, SAVE):
                save_sites.append(c)
    for s in save_sites:
        f = s.fn
        # generation step: direct call of generate_models (trait method) in the same function
        gens = [c for c in f.calls if c.path == GEN_MODELS or (c.resolved or "").endswith("::generate_models")]
        if not gens:
            r1.bad(V(r1.id, f.id, "save-without-generation-step",
                     "GenerationCache::save is called in a function that does not itself run generate_models; "
                     "its success cannot be tied to the generation result", s.file, s.line))
            continue
        edoms = f.edge_dominators(s.bb)
        ok_gen = False
        for g in gens:
            ce = continue_edge_of_try(f, g)
            if ce and ce in edoms:
                ok_gen = True
        if not ok_gen:
            ok, how, _ = try_propagated(f, gens[0])
            r1.bad(V(r1.id, f.id, "save-not-dominated-by-generate_models-success",
                     "call of GenerationCache::save is not dominated by the Continue edge of generate_models(..)? (%s)" % how,
                     s.file, s.line, {"save_block": s.bb}))
        else:
            r1.ok("%s: save @%s dominated by Continue edge of generate_models(..)?" % (short_path(f.id), s.where()))
        # other mutating steps that can precede save
        after = blocks_reachable_from(f, s.bb)
        for c in f.calls:
            if c.bb == s.bb or is_call_to(c, SAVE):
                continue
            mut = is_fs_mut(c) or any(fsreach(t) for t in P.targets(c))
            if not mut:
                continue
            if c in gens:
                continue
            if s.bb in blocks_reachable_from(f, c.bb):
                ce = continue_edge_of_try(f, c)
                if ce is None:
                    ok, how, _ = try_propagated(f, c)
                    r1.bad(V(r1.id, f.id, "save-reachable-after-unchecked:%s" % short_path(c.best),
                             "save can be reached after %s whose failure is not propagated (%s)" % (c.best, how), c.file, c.line))
                elif reach_without_edge(f, c.bb, s.bb, ce):
                    r1.bad(V(r1.id, f.id, "save-reachable-on-failure-of:%s" % short_path(c.best),
                             "save can be reached from %s without passing its success edge" % c.best, c.file, c.line))
                else:
                    r1.ok("%s: %s @%s precedes save only through its success edge" % (short_path(f.id), short_path(c.best), c.where()))
            if c.bb in after and c.bb != s.bb:
                r1.bad(V(r1.id, f.id, "fs-mutation-after-save:%s" % short_path(c.best),
                         "filesystem-mutating step %s is reachable after GenerationCache::save" % c.best, c.file, c.line))
    r1.require_floor(2, "reachable GenerationCache::save call sites (CLI path + build path) and their predecessors")
    rules.append(r1)

    r1b = Rule("C17-D1-readers-never-write", "D1",
               "GenerationCache::{load, needs_regeneration, new} reach no filesystem mutator",
               "a cache check that writes the record would vouch for files that were never generated")
    impl = "tauri_typegen::build::generation_cache::GenerationCache::"
    READONLY = sorted(k for k in P.fns if k.startswith(impl) and "{" not in k and k[len(impl):].startswith(READONLY_PREFIXES))
    for need in ("load", "needs_regeneration", "new"):
        if impl + need not in P.fns:
            r1b.bad(V(r1b.id, "<anchor>", "missing:" + need, "anchor function not found: GenerationCache::" + need))
    for fid in READONLY:
        if fsreach(fid):
            r1b.bad(V(r1b.id, fid, "reaches-fs-mutator", "%s can reach a filesystem mutation" % fid, P.fns[fid].file, P.fns[fid].line))
        else:
            r1b.ok(short_path(fid) + " reaches no filesystem mutator")
    rules.append(r1b)

    # ---------------------------------------------------------------- D2
    r2 = Rule("C17-D2-write-errors-propagate", "D2",
              "every Result returned by a filesystem-mutating step on the generation path (bodies reachable from "
              "generate_models, plus the functions that call save) is propagated with `?` or returned",
              "a swallowed write error lets the run continue to GenerationCache::save and report success")
    scope = set()
    gen_impls = [t for t in P.trait_impls.get(GEN_MODELS, []) if t in P.fns]
    if len(gen_impls) < 2:
        r2.bad(V(r2.id, "<anchor>", "generate_models-impls", "expected >= 2 implementations of BaseBindingsGenerator::generate_models, found %d" % len(gen_impls)))
    scope |= P.reachable(gen_impls)
    scope |= {s.fn.id for s in save_sites}
    # ... and the bodies of every mutating step that runs in those functions (their own Result must be faithful, all the way down)
    for s_ in save_sites:
        for c_ in s_.fn.calls:
            for t_ in P.targets(c_):
                if fsreach(t_):
                    scope |= {g_ for g_ in P.reachable([t_]) if fsreach(g_) or any(is_fs_mut(k_) for k_ in P.fns[g_].calls)}
    n_sites = 0
    for fid in sorted(scope):
        f = P.fns[fid]
        if "{promoted#" in fid:
            continue
        for c in f.calls:
            direct = is_fs_mut(c)
            indirect = (not direct) and any(fsreach(t) for t in P.targets(c))
            if not (direct or indirect):
                continue
            if is_call_to(c, SAVE):
                # swallowing a failure of save itself errs on the safe side (no record => regenerate)
                continue
            dty = c.term.get("dest_ty", "")
            if not dty.startswith("std::result::Result<"):
                if indirect:
                    # a mutating step that cannot report failure: acceptable only if it is the
                    # constructor-like/unit wrapper of something checked elsewhere — report.
                    # Closures passed to iterator adaptors return their value to the adaptor.
                    continue
                continue
            n_sites += 1
            ok, how, _ = try_propagated(f, c)
            kill = result_killed_unexamined(f, c) if ok else None
            if kill:
                r2.bad(V(r2.id, fid, "result-overwritten:%s" % short_path(c.best),
                         "the Result of filesystem-mutating step %s can be %s: only a later result is propagated, an earlier failure is lost" % (c.best, kill), c.file, c.line))
            elif ok:
                r2.ok("%s: %s @%s — %s" % (short_path(fid), short_path(c.best), c.where(), how))
            else:
                r2.bad(V(r2.id, fid, "unpropagated:%s" % short_path(c.best),
                         "Result of filesystem-mutating step %s is not propagated: %s" % (c.best, how), c.file, c.line))
    # a closure that returns the Result of a mutating step hands it to whoever calls the closure: the adapter it was given to (`opt.map(|c| write(&c))`,
    # `.then(..)`, `.and_then(..)`) must itself yield a value that carries the Result, and that value must be propagated like any other
    for fid in sorted(scope):
        f = P.fns[fid]
        if "::{closure" not in fid or "{promoted#" in fid or "Result<" not in f.locals[0]:
            continue
        if not any((is_fs_mut(c) or any(fsreach(t) for t in P.targets(c))) and c.bb in f.reach_blocks for c in f.calls):
            continue
        parent = fid.rsplit("::{closure", 1)[0]
        holders = [P.fns[k] for k in P.fns if (k == parent or parent in {b_.get("inl") for b_ in P.fns[k].d.get("blocks", [])}) and "{promoted#" not in k]
        for g in holders:
            for c2 in g.calls:
                if c2.bb not in g.reach_blocks:
                    continue
                takes = False
                for a_ in c2.args:
                    o_ = g.origin(a_)
                    if o_[0] in ("aggr", "const") and isinstance(o_[1], dict) and o_[1].get("closure") == fid:
                        takes = True
                if not takes:
                    continue
                n_sites += 1
                dty2 = c2.term.get("dest_ty", "")
                if "Result<" not in dty2:
                    r2.bad(V(r2.id, g.id, "closure-result-swallowed:%s" % c2.name,
                             "a closure returning the Result of a filesystem-mutating step is handed to `%s`, whose value carries no Result: a failed write goes unnoticed" % c2.name, c2.file, c2.line))
                    continue
                ok2, how2, _ = try_propagated(g, c2)
                kill2 = result_killed_unexamined(g, c2)
                # ... possibly after being turned inside out (`.transpose()?`, `.unwrap_or(Ok(()))?`): follow the value through the calls it is moved into
                cur, hops = c2, 0
                while (not ok2 or kill2) and hops < 3:
                    hops += 1
                    nxt = None
                    for c3 in g.calls:
                        if c3 is cur or c3.bb not in g.reach_blocks or "Result<" not in c3.term.get("dest_ty", ""):
                            continue
                        for a_ in c3.args[:1]:
                            o_ = g.origin(a_)
                            while o_[0] == "proj":
                                o_ = o_[1]
                            if o_[0] == "call" and o_[1].bb == cur.bb:
                                nxt = c3
                    if nxt is None:
                        break
                    cur = nxt
                    ok2, how2, _ = try_propagated(g, cur)
                    kill2 = result_killed_unexamined(g, cur)
                if not ok2 or kill2:
                    r2.bad(V(r2.id, g.id, "closure-result-dropped:%s" % c2.name,
                             "`%s(..)` yields %s from a closure that performs a filesystem-mutating step, and that value is %s: a failed write goes unnoticed"
                             % (c2.name, dty2[:60], kill2 or "not propagated (%s)" % how2), c2.file, c2.line))
                else:
                    r2.ok("%s: the Result produced inside the closure given to %s is propagated (%s)" % (short_path(g.id), c2.name, how2))
    # a buffering writer reports late write errors only through flush()/into_inner(); its Drop discards them.  Every buffered writer built on
    # the generation path must be flushed with a propagated result before it goes out of scope (expected count on this tree: zero writers)
    n_buf = 0
    for fid in sorted(scope | set(reach)):
        f = P.fns.get(fid)
        if f is None or "{promoted#" in fid:
            continue
        for c in f.calls:
            if not (("BufWriter" in c.path or "LineWriter" in c.path) and c.name in ("new", "with_capacity")):
                continue
            n_buf += 1
            fl = [d for d in f.calls if d.name in ("flush", "into_inner") and f.dominates(c.bb, d.bb)]
            good = [d for d in fl if try_propagated(f, d)[0]]
            if good:
                r2.ok("%s: buffered writer flushed with a propagated result @%s" % (short_path(fid), good[0].where()))
            else:
                r2.bad(V(r2.id, fid, "buffered-writer-not-flushed", "a %s is created but never flushed with a propagated result: write errors surfacing at drop are discarded, the run reports success"
                         % short_path(c.path), c.file, c.line))
    # a write that may be partial is not a write whose failure is noticed (shared with C01-D5 / C14-D5)
    from rulelib import check_whole_file_writes
    check_whole_file_writes(P, r2, reach, what="file")
    r2.notes.append("buffered writers on the generation path: %d" % n_buf)
    r2.require_floor(8, "Result-returning filesystem-mutating call sites on the generation path")
    rules.append(r2)

    # "success" is only reported for a run that looked at the project: in every function that drives a generation (it analyses the project and calls
    # generate_models), each way out with Ok(..) lies behind the success edge of the analysis — nothing to generate, a cache hit, or a completed
    # generation.  An Ok exit taken before that (an output path that is a file: "nothing was generated", exit 0) reports an unusable setup as success
    for fid in sorted(reach):
        f = P.fns[fid]
        if "{closure" in fid or "{promoted" in fid or not any(c.path == GEN_MODELS and c.bb in f.reach_blocks for c in f.calls):
            continue
        an = [c for c in f.calls if c.bb in f.reach_blocks and re.search(r"CommandAnalyzer::analyze_project\w*$", short_path(c.best))]
        if not an:
            continue
        for b in sorted(f.reach_blocks):
            for st in f.blocks[b]["stmts"]:
                rv = st.get("rv") or {}
                if st.get("lhs") and st["lhs"]["l"] == 0 and not st["lhs"].get("p") and rv.get("k") == "aggr" and rv.get("variant") == "Ok":
                    if any(f.dominates(c.bb, b) and c.bb != b for c in an):
                        r2.ok("%s: Ok exit behind the project analysis" % short_path(fid))
                    else:
                        conds = [x for x in f.must_conditions(b) if not x.startswith("try(")]
                        r2.bad(V(r2.id, fid, "ok-exit-before-analysis:%s" % ";".join(sorted(conds))[:100], "%s can return Ok(..) before the project was analysed (under %s): "
                                 "a setup the run cannot work with is reported as success (exit 0) and nothing is generated" % (short_path(fid), conds or "no condition"),
                                 st.get("file"), st.get("line")))
    r2b = Rule("C17-D2-main-exit-status", "D2",
               "in main, the Err outcome of run_generate/run_init leads to process::exit with a non-zero constant",
               "a failed run that exits 0 is 'reported as success'")
    main = P.fns.get("cargo_tauri_typegen::main")
    if not main:
        r2b.bad(V(r2b.id, "<anchor>", "missing:main", "binary entry point not found"))
    else:
        runs = [c for c in main.calls if c.best in ("cargo_tauri_typegen::run_generate", "cargo_tauri_typegen::run_init")]
        exits = [c for c in main.calls if strip_generics(c.path) == "std::process::exit"]
        for rc in runs:
            found = False
            for ex in exits:
                k = op_const(ex.args[0]) if ex.args else None
                code = k.get("int") if k else None
                for (a, lab) in main.edge_dominators(ex.bb):
                    o, outcome = main.cond_struct(a, lab)
                    # the Result examined is this call's — directly, or as one arm of `let outcome = match cmd { A => run_a(..), B => run_b(..) }`
                    alts = [o] if o[0] == "call" else ([x for x in o[2]] if o[0] == "multi" else [])
                    if alts and all(x[0] == "call" for x in alts) and any(x[1].bb == rc.bb for x in alts) and outcome == "Err" and code not in (None, 0):
                        found = True
            if found:
                r2b.ok("main: %s Err => process::exit(non-zero)" % short_path(rc.best))
            else:
                r2b.bad(V(r2b.id, main.id, "no-nonzero-exit-on-Err:%s" % short_path(rc.best),
                          "the Err result of %s does not lead to process::exit(<non-zero>)" % rc.best, rc.file, rc.line))
        # ... and on the way down nothing swallows the failure either: in every function between an entry point and a function that generates
        # (calls generate_models), the Result of the call that leads to generation is propagated — `init` runs a first generation, the build script
        # wraps generate_bindings, the library interface wraps the same steps
        gen_fns = {fid for fid in reach if any(c.path == GEN_MODELS for c in P.fns[fid].calls)}
        memo_g = {}

        def leads_to_generation(t):
            return t in gen_fns or P.reaches(t, lambda k: k.path == GEN_MODELS, memo_g)
        n_chain = 0
        for fid in sorted(reach):
            f = P.fns[fid]
            if fid in gen_fns or "{promoted#" in fid or fid == main.id:
                continue
            for c in f.calls:
                if c.bb not in f.reach_blocks or not any(leads_to_generation(t) for t in P.targets(c)):
                    continue
                if not c.term.get("dest_ty", "").startswith("std::result::Result<"):
                    continue
                n_chain += 1
                ok, how, _ = try_propagated(f, c)
                kill = result_killed_unexamined(f, c) if ok else None
                if ok and not kill:
                    r2b.ok("%s: failure of %s is passed on (%s)" % (short_path(fid), short_path(c.best), how))
                else:
                    r2b.bad(V(r2b.id, fid, "generation-failure-swallowed:%s" % short_path(c.best),
                              "%s does not pass on the failure of %s (%s): a run whose generation failed is reported as success" % (short_path(fid), short_path(c.best), kill or how), c.file, c.line))
        r2b.require_floor(3, "run_generate/run_init call sites in main + callers of generating functions")
    rules.append(r2b)

    # ---------------------------------------------------------------- D3
    r3 = Rule("C17-D3-record-from-same-inputs", "D3",
              "GenerationCache::new receives the same commands/structs/config values that were passed to generate_models",
              "a record computed from other values than the ones generated from vouches for files it does not describe")
    for s in save_sites:
        f = s.fn
        news = [c for c in f.calls if is_cache_new(c)]
        gens = [c for c in f.calls if c.path == GEN_MODELS]
        if not news or not gens:
            r3.bad(V(r3.id, f.id, "no-cache-new-or-generate", "function saves a cache but does not build it next to the generation call", s.file, s.line))
            continue
        g = gens[0]
        n = news[0]
        for what in ("commands", "structs", "config"):
            na = arg_by_type(n, ARG_TYPES[what])
            ga = arg_by_type(g, ARG_TYPES[what])
            if na is None or ga is None:
                r3.bad(V(r3.id, f.id, "no-%s-argument" % what, "cannot find the %s argument of GenerationCache::new / generate_models" % what, n.file, n.line))
                continue
            a = f.describe_origin(f.origin(na), short=False, deep=3)
            b = f.describe_origin(f.origin(ga), short=False, deep=3)
            if a == b and a != "?":
                r3.ok("%s: cache.%s == generate_models.%s (%s)" % (short_path(f.id), what, what, a[:80]))
            else:
                r3.bad(V(r3.id, f.id, "different-%s" % what,
                         "GenerationCache::new is given %s from `%s` but generate_models from `%s`" % (what, a, b), n.file, n.line))
        ev = arg_by_type(n, ARG_TYPES["events"])
        if ev is not None:
            a = f.describe_origin(f.origin(ev), short=False, deep=3)
            ga = arg_by_type(g, r"CommandAnalyzer$")
            an = f.describe_origin(f.origin(ga), short=False, deep=3) if ga is not None else "?"
            if "get_discovered_events" in a and an != "?" and an.replace("deref", "").strip("().") in a.replace("deref", ""):
                r3.ok("%s: cache.events == events of the analyzer handed to generate_models" % short_path(f.id))
            elif "get_discovered_events" in a:
                r3.ok("%s: cache.events = analyzer.get_discovered_events()" % short_path(f.id))
            else:
                r3.bad(V(r3.id, f.id, "different-events", "GenerationCache::new is given events from `%s`, not from the analyzer used for generation" % a, n.file, n.line))
        # the saved record is the one just built
        o = f.origin(s.args[0])
        txt = f.describe_origin(o, short=False, deep=3)
        if "GenerationCache::new" in txt:  # new / new_with_events
            r3.ok("%s: saved record originates from GenerationCache::new" % short_path(f.id))
        else:
            r3.bad(V(r3.id, f.id, "saved-record-origin", "saved record does not originate from GenerationCache::new in this function: %s" % txt, s.file, s.line))
    r3.require_floor(8, "argument pairs")
    rules.append(r3)

    return finish(
        PROP, ctx, rules,
        "Static ORDER/ERRPROP/CALLS/FLOW rules over the MIR of every body reachable from the entry points: "
        "dominance of GenerationCache::save by the success edges of generation and of every other mutating step, "
        "absence of mutation after it, propagation of every write error up to exit(1), identity of the hashed inputs.",
        ["process kill between writes (no atomic rename exists; outside the statement's fault model)",
         "template-render failures are written as empty files and then cached (not a write failure)",
         "OutputManager::finalize_generation runs after the record is saved on the build path; its failure leaves correct files + record"],
        ["rustc MIR and callee resolution are faithful to the build (`cargo +nightly check --lib --bins`, same manifest/lock)",
         "std::fs functions listed in rulelib.FS_MUTATORS are the only filesystem mutators used (cross-checked by C16's who-may-call enumeration)"])

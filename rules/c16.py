"""C16 — only the tool's own files in the output directory are ever written or removed.

Decided clauses (all necessary conditions, exhaustive over the resolved call graph):
  D1  CALLS      every filesystem-mutating call reachable from the entry points is enumerated (std::fs table)
  D2  PATHSHAPE  its path operand has one of the allowed provenances: OutDir ⊕ reserved literal,
                 create_dir_all(OutDir), an entry of read_dir(OutDir) guarded by is_file ∧ is_generated_file,
                 or — for `init` — the configuration path given on the command line
  D3  TABLE/CTRL the deletion predicate only knows reserved names / documented patterns and the
                 deletion site is guarded by it (plus `not in the current run's files`)
  D4  PATHSHAPE  no mutating call receives a path derived from the project (source) path
"""
import re

from common import Rule, V, finish
from mirlib import ENTRY_POINTS, short_path, op_const
from rulelib import fs_mut_sites, callee_name, is_fs_mut, strip_generics
from shapes import Shaper, render, alternatives

PROP = "C16"

RESERVED_RE = re.compile(r"^(?:(?:types|commands|events|index|schemas|models|bindings)\.(?:ts|d\.ts)|\.typecache|dependency-graph\.(?:txt|dot))$")


def reserved(name):
    return bool(RESERVED_RE.match(name)) or name.startswith("generated_") or "_generated" in name


OUT = ("field", "OUTDIR")
DELETERS = {"std::fs::remove_file", "std::fs::remove_dir", "std::fs::remove_dir_all"}
DIR_CREATORS = {"std::fs::create_dir_all", "std::fs::create_dir"}


def leaves(s):
    t = s[0]
    if t in ("join", "withext"):
        return leaves(s[1]) + leaves(s[2])
    if t in ("parent", "direntry", "readdir", "default"):
        return leaves(s[1])
    if t == "fmt":
        return [l for p in s[1] for l in leaves(p)]
    if t == "alt":
        return [l for p in s[1] for l in leaves(p)]
    if t == "call":
        return [s] + [l for p in s[2] for l in leaves(p)]
    return [s]


def is_cli(s):
    """value taken from the command line (clap ArgMatches), possibly defaulted / joined with a literal"""
    t = s[0]
    if t == "cli":
        return True
    if t == "call" and "ArgMatches" in s[1]:
        return True
    if t == "default":
        return s[1][0] == "lit"
    if t == "join":
        return is_cli(s[1]) and s[2][0] == "lit"
    return False


def classify(kind, s):
    """-> (ok, category, offending literal or None)"""
    t = s[0]
    if any(l[0] == "none" for l in leaves(s)):
        return True, "an Option on this flow is None at every reachable constructor (dead branch)", None
    if kind in DIR_CREATORS:
        if s == OUT:
            return True, "create_dir_all(OutDir)", None
        if t == "parent" and s[1][0] == "join" and s[1][1] == OUT and s[1][2][0] == "lit" and "/" not in s[1][2][1]:
            return True, "create_dir_all(parent(OutDir/lit)) = OutDir", None
        return False, "directory creation outside OutDir", None
    if t == "join" and s[1] == OUT and s[2][0] == "lit":
        return (reserved(s[2][1]), "OutDir/" + s[2][1], s[2][1])
    if t == "fmt" and len(s[1]) == 3 and s[1][0] == OUT and s[1][1] == ("lit", "/") and s[1][2][0] == "lit":
        return (reserved(s[1][2][1]), "OutDir/" + s[1][2][1], s[1][2][1])
    if t == "direntry" and s[1] == ("readdir", OUT):
        return True, "entry of read_dir(OutDir) (guard checked by D3)", None
    if is_cli(s):
        return (kind == "std::fs::write", "configuration path given on the command line (init)", None)
    return False, "unrecognised path provenance", None


def check(ctx):
    P = ctx.P
    reach = P.reachable(ENTRY_POINTS)
    S = Shaper(P, reach)
    rules = []

    sites = fs_mut_sites(P)
    rsites = [c for c in sites if c.fn.id in reach]

    r1 = Rule("C16-D1-fs-mutators-enumerated", "D1",
              "all resolved call sites of the std::fs mutator table in lib+bin are enumerated; reachable ones are checked by D2",
              "an unlisted writer is an unchecked writer")
    for c in sites:
        r1.ok("%s %s @%s in %s" % ("reachable" if c.fn.id in reach else "unreachable", short_path(callee_name(c)), c.where(), short_path(c.fn.id)))
    r1.notes.append("unreachable from the entry points (checked only in the thorough tier's pub-API closure): " +
                    ", ".join(sorted(set(short_path(c.fn.id) for c in sites if c.fn.id not in reach))))
    r1.require_floor(12, "filesystem-mutating call sites")
    rules.append(r1)

    r2 = Rule("C16-D2-path-provenance", "D2",
              "the path operand of every reachable filesystem-mutating call is OutDir ⊕ reserved literal name, "
              "OutDir itself (directory creation), a guarded read_dir(OutDir) entry, or the CLI-given configuration path",
              "any other path writes or removes a file that is not one of the tool's own")
    r4 = Rule("C16-D4-sources-untouched", "D4",
              "no filesystem-mutating call receives a path derived from the project (source) path",
              "the tool must never modify the Rust sources it scans")
    for c in rsites:
        kind = callee_name(c)
        ops = [0]
        if kind in ("std::fs::rename", "std::fs::copy", "std::fs::hard_link"):
            ops = [1] if kind == "std::fs::copy" else [0, 1]
        for oi in ops:
            sh = S.shape_op(c.fn, c.args[oi])
            alts = alternatives(sh)
            for a in alts:
                ok, cat, lit = classify(kind, a)
                ident = "%s:%s" % (short_path(kind), render(a))
                if ok:
                    r2.ok("%s @%s ← %s [%s]" % (short_path(kind), c.where(), render(a), cat))
                else:
                    r2.bad(V(r2.id, c.fn.id, ident,
                             "%s receives path %s — %s%s" % (kind, render(a), cat,
                                                                (": '%s' is not one of the reserved generated names" % lit) if lit else ""),
                             c.file, c.line, {"shape": render(sh)}))
                if any(l == ("field", "PROJECT") for l in leaves(a)):
                    r4.bad(V(r4.id, c.fn.id, ident, "%s receives a path derived from the project path: %s" % (kind, render(a)), c.file, c.line))
                else:
                    r4.ok(None)
    r2.require_floor(10, "reachable (call site, path alternative) pairs")
    # which directory is "the configured output directory": the one named by the first configuration file found (shared with C19-D3)
    from c19 import check_first_config_wins
    check_first_config_wins(P, r2)
    rules.append(r2)
    r4.samples.append("%d reachable mutating operands, none derived from GenerateConfig.project_path" % r4.discharged)
    rules.append(r4)

    # ---------------------------------------------------------------- D3
    r3 = Rule("C16-D3-deletion-predicate", "D3",
              "is_generated_file only accepts reserved literal names, starts_with(\"generated_\"), contains(\"_generated\") or "
              "membership in the current run's managed set; every deletion of a directory entry is guarded by "
              "is_file ∧ is_generated_file ∧ ¬current_set.contains",
              "a wider predicate (e.g. ends_with(\".ts\")) deletes foreign files from the output directory")
    ig = [f for f in P.find("OutputManager::is_generated_file")]
    if not ig:
        r3.bad(V(r3.id, "<anchor>", "missing:is_generated_file", "deletion predicate not found"))
    else:
        f = ig[0]
        bodies = [f] + [g for k, g in P.fns.items() if k.startswith(f.id + "::{promoted#")]
        lits = []
        for g in bodies:
            for blk in g.blocks:
                for st in blk["stmts"]:
                    rv = st.get("rv")
                    if not rv:
                        continue
                    ops = []
                    if rv["k"] in ("use", "cast"):
                        ops = [rv["op"]]
                    elif rv["k"] == "aggr":
                        ops = rv["ops"]
                    for o in ops:
                        k = op_const(o)
                        if k and "str" in k:
                            lits.append(k["str"])
                t = blk["term"]
                if t["k"] == "call":
                    for a in t["args"]:
                        k = op_const(a)
                        if k and "str" in k:
                            lits.append(("arg", k["str"]))
        allowed_calls = {
            "slice::contains": None,
            "str::starts_with": "generated_",
            "str::contains": "_generated",
            "HashSet::contains": None,
        }
        for c in f.calls:
            p = short_path(c.path)
            dty = c.term.get("dest_ty", "")
            if dty != "bool":
                continue
            if c.name == "eq" and len(c.args) == 2 and (c.arg_lit(1, P) or c.arg_lit(0, P)) is not None:
                # the name list spelled as `matches!(name, "a" | "b")` / an == chain: one exact-name disjunct per literal
                l_ = c.arg_lit(1, P) or c.arg_lit(0, P)
                if reserved(l_):
                    r3.ok("disjunct == %r (a reserved generated name)" % l_)
                else:
                    r3.bad(V(r3.id, f.id, "predicate-literal:%s" % l_, "deletion predicate lists %r, which is not one of the reserved generated names" % l_, c.file, c.line))
                continue
            if p not in allowed_calls:
                r3.bad(V(r3.id, f.id, "predicate-disjunct:%s(%s)" % (short_path(p), c.arg_str(1)),
                         "deletion predicate has an undocumented disjunct: %s" % c.snip, c.file, c.line))
                continue
            want = allowed_calls[p]
            got = c.arg_str(1)
            if want is not None and got != want:
                r3.bad(V(r3.id, f.id, "predicate-pattern:%s(%r)" % (short_path(p), got),
                         "deletion predicate pattern %r differs from the documented %r" % (got, want), c.file, c.line))
            else:
                r3.ok("disjunct %s(%s)" % (short_path(p), got if got is not None else "…"))
        for l in lits:
            if isinstance(l, tuple):
                continue
            if reserved(l):
                r3.ok("literal %r is a reserved generated name" % l)
            else:
                r3.bad(V(r3.id, f.id, "predicate-literal:%s" % l,
                         "deletion predicate lists %r, which is not one of the reserved generated names" % l, f.file, f.line))
    # deletion sites of directory entries: guard at the function that enumerates the directory
    memo = {}

    def reaches_delete(fid):
        return P.reaches(fid, lambda c: callee_name(c) in DELETERS, memo)
    for f in [P.fns[x] for x in sorted(reach)]:
        if "{promoted#" in f.id:
            continue
        if not any(callee_name(c) == "std::fs::read_dir" for c in f.calls):
            continue
        for c in f.calls:
            deleting = callee_name(c) in DELETERS or any(reaches_delete(t) for t in P.targets(c))
            if not deleting:
                continue
            # does it receive a directory entry?
            ent = False
            for a in c.args:
                sh = S.shape_op(f, a)
                if any(x[0] == "direntry" for x in alternatives(sh)):
                    ent = True
            if not ent:
                continue
            conds = set(f.must_conditions(c.bb))
            need = {"is_file": any(re.match(r"call Path::is_file\(\)=true", x) for x in conds),
                    "is_generated_file": any(re.match(r"call OutputManager::is_generated_file\(\)=true", x) for x in conds),
                    "not-current": any(re.match(r"call HashSet::contains\(\)=false", x) for x in conds)}
            # the guards speak about the entry's own name: a name that was case-folded / trimmed / rewritten first is another name
            # (`Models.ts` is not the tool's `models.ts`)
            TRANSFORMS = ("to_lowercase", "to_uppercase", "to_ascii_lowercase", "to_ascii_uppercase", "trim", "trim_start", "trim_end", "trim_matches",
                          "trim_start_matches", "trim_end_matches", "replace", "replacen", "strip_prefix", "strip_suffix", "to_lossy_lowercase")
            for (a_, lab_) in f.edge_dominators(c.bb):
                o_, out_ = f.cond_struct(a_, lab_)
                while o_[0] == "un":
                    o_ = o_[2]
                if o_[0] == "call" and (short_path(o_[1].best) == "OutputManager::is_generated_file" or (o_[1].name == "contains" and "HashSet" in o_[1].path)) and len(o_[1].args) >= 2:
                    fed = f.feeding_calls(o_[1].args[1], depth=6)
                    tr = sorted(x.split("::")[-1] for x in fed if x.split("::")[-1] in TRANSFORMS)
                    if tr:
                        r3.bad(V(r3.id, f.id, "guard-on-transformed-name:%s:%s" % (o_[1].name, ",".join(tr)),
                                 "the deletion guard %s(..) is asked about a transformed file name (%s), not the directory entry's own name: files that merely resemble a reserved name are deleted"
                                 % (o_[1].name, ", ".join(tr)), c.file, c.line))
                    else:
                        r3.ok("%s: %s is asked about the entry's own file name" % (short_path(f.id), o_[1].name))
            miss = [k for k, v in need.items() if not v]
            if miss:
                r3.bad(V(r3.id, f.id, "unguarded-delete:%s:missing=%s" % (short_path(c.best), ",".join(miss)),
                         "deletion of a directory entry via %s is not guarded by %s (guards present: %s)" % (c.best, ", ".join(miss), sorted(conds)),
                         c.file, c.line))
            else:
                r3.ok("%s: delete of read_dir entry via %s guarded by is_file ∧ is_generated_file ∧ ¬current.contains" % (short_path(f.id), short_path(c.best)))
    r3.require_floor(10, "predicate disjuncts, literals and guarded deletion sites")
    rules.append(r3)

    # the output directory every path is built from is the *effective* one: config.output_path is not read before the -o override (shared with C19-D3)
    from c19 import check_no_early_reads
    sub = Rule(r2.id, "D2", "", "")
    check_no_early_reads(P, sub, fields={"output_path", "project_path"})
    r2.instances += sub.instances
    r2.discharged += sub.discharged
    for v_ in sub.violations:
        v_.rule = r2.id
        r2.violations.append(v_)
    # ---------------------------------------------------------------- D5: init writes where it was pointed
    r5 = Rule("C16-D5-init-target", "D5",
              "in run_init the given configuration path is replaced by <project>/tauri.conf.json only under both tests of the documented default rule: "
              "the file name is tauri.conf.json AND the path has no directory component (Path::parent is empty)",
              "a weaker guard redirects `-o staging/tauri.conf.json` to the project's tauri.conf.json: init then modifies a file it was not pointed at")
    ri = [f for fid, f in P.fns.items() if fid.endswith("::run_init") and fid in reach]
    for f in ri:
        joins = [c for c in f.calls if c.name == "join" and c.bb in f.reach_blocks and (c.arg_str(1) or "").endswith(".json")]
        for c in joins:
            texts = []
            for (a, lab) in f.edge_dominators(c.bb):
                o, outcome = f.cond_struct(a, lab)
                texts.append((f.describe_origin(o, short=True, deep=6), outcome))
            by_name = any("Path::file_name(" in t and out == "true" for t, out in texts)
            by_parent = any("Path::parent(" in t and out == "true" for t, out in texts)
            if by_name and by_parent:
                r5.ok("run_init: redirect to <project>/%s only for a bare file name" % c.arg_str(1))
            else:
                r5.bad(V(r5.id, f.id, "init-redirect-guard:name=%s,parent=%s" % (by_name, by_parent),
                         "the configuration path is replaced by <project>/%s without the %s test" % (c.arg_str(1), "file-name" if not by_name else "no-directory-component"), c.file, c.line))
    # ... and the generation init starts afterwards runs with init's own values: the project path, the output directory and the validation library
    # it was given (and has just written to the configuration) are handed on as Some(..) — a None lets run_generate fall back to whatever
    # configuration its discovery finds in the current directory, i.e. possibly another output directory than the one init was told to use
    for f in ri:
        for c in f.calls:
            if c.bb not in f.reach_blocks or not short_path(c.best).endswith("run_generate"):
                continue
            for i_, what in ((0, "project path"), (1, "output path"), (2, "validation library")):
                if i_ >= len(c.args):
                    continue
                o_ = f.origin(c.args[i_])
                if o_[0] == "aggr" and isinstance(o_[1], dict) and o_[1].get("variant") == "None":
                    r5.bad(V(r5.id, f.id, "init-generation-ignores-given:%s" % what.replace(" ", "-"), "run_init starts the first generation with %s = None: the %s init was "
                             "given is ignored and the one a discovered configuration names (or the default) is used" % (what, what), c.file, c.line))
                else:
                    r5.ok("run_init hands its %s on to the first generation" % what)
    # ... and the file init writes is the file whose existence it examined: between an `exists()` test of the configuration path and the write
    # through that path, the path variable is neither reassigned nor mutably borrowed (set_extension / push / set_file_name after the guard make
    # init overwrite a file the "already exists, use --force" protection never looked at)
    from unord import Unord
    from rulelib import blocks_reachable_from
    for f in ri:
        base = lambda op: Unord._base_local(None, f, op)
        writes = [c for c in f.calls if c.bb in f.reach_blocks and short_path(c.best) in ("GenerateConfig::save_to_file", "GenerateConfig::save_to_tauri_config")]
        guards = [c for c in f.calls if c.bb in f.reach_blocks and c.name in ("exists", "try_exists", "is_file") and c.args]
        if not writes or not guards:
            r5.bad(V(r5.id, f.id, "init-shape:%d:%d" % (len(writes), len(guards)), "run_init: %d configuration writes, %d existence tests" % (len(writes), len(guards))))
            continue
        for w in writes:
            L = base(w.args[-1])
            gs = [g for g in guards if base(g.args[0]) == L and w.bb in blocks_reachable_from(f, g.bb)]
            if not gs:
                r5.bad(V(r5.id, f.id, "init-write-unguarded:%s" % short_path(w.best), "the path written by %s is not the one any existence test examined" % short_path(w.best), w.file, w.line))
                continue
            muts = []
            between = set()
            for g in gs:
                between |= {b for b in blocks_reachable_from(f, g.bb) if b in f.reach_blocks and (b == w.bb or w.bb in blocks_reachable_from(f, b))}
            for b in sorted(between):
                for st in f.blocks[b]["stmts"]:
                    rv = st.get("rv")
                    if "lhs" in st and st["lhs"]["l"] == L and not st["lhs"].get("p"):
                        muts.append("assigned")
                    elif rv and rv["k"] == "ref" and rv.get("mut") and rv["place"]["l"] == L:
                        muts.append("mutably-borrowed")
                t = f.blocks[b]["term"]
                if t["k"] == "call" and t["dest"]["l"] == L and not t["dest"].get("p") and b != w.bb:
                    muts.append("assigned")
            if muts:
                r5.bad(V(r5.id, f.id, "init-path-changed-after-guard:%s" % ",".join(sorted(set(muts))),
                         "the configuration path is %s between its existence test and %s: init can overwrite a file the guard never examined" % ("/".join(sorted(set(muts))), short_path(w.best)), w.file, w.line))
            else:
                r5.ok("run_init: the path given to %s is unchanged since its existence test" % short_path(w.best))
    if not ri:
        r5.bad(V(r5.id, "<anchor>", "missing:run_init", "anchor not found"))
    r5.require_floor(3, "init redirect sites + guarded configuration writes")
    rules.append(r5)

    return finish(
        PROP, ctx, rules,
        "Who-may-call enumeration of every std::fs mutator in the resolved call graph of lib+bin, interprocedural "
        "provenance (shape) of each path operand — through struct fields, constructors, callers, format! templates "
        "decoded from the compiled fmt::Arguments bytes — classified against the reserved-name grammar of the statement; "
        "the deletion predicate's literal table and the guards that dominate the deletion site.",
        ["symlinks inside the output directory; relative-path resolution by the OS",
         "events.ts is written but not in is_generated_file's table (affects only clean-up of stale event files; not a violation)",
         "pub API functions unreachable from the entry points (OutputManager::write_file, with_backup, FileWriter::delete_file) are listed, not checked, in the quick tier"],
        ["the std::fs mutator table (rulelib.FS_MUTATORS) is complete for this crate: the crate has no other I/O dependency (tera/serde_json/walkdir do not write)",
         "GenerateConfig.output_path is, by definition, the configured output directory"])

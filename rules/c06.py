"""C06 — property keys and enum literals equal the names serde uses on the wire.

  D1  SV     precedence: item-level rename ▷ container rename_all ▷ default; default_field_case() == "snake_case" (identity on fields)
  D2  CALLS  enum variants are renamed with the variant rule (RenameRule::apply_to_variant or an equivalent total variant conversion),
             struct fields with the field rule; unattributed variants keep their Rust name
  D3  CALLS  serde attributes are recognised on the token structure (syn meta items), not by substring search on the token string
  D4  CTRL   a field is dropped exactly when its serde attributes say skip
  D5  TPATH  keys and enum literals in the templates (and the Rust-side enum schema) are bound to serializedName
"""
import re

from common import Rule, V, finish
from mirlib import ENTRY_POINTS, short_path, op_const
from srclib import children, stmt_exprs, walk_block, walk, lit_str, expr_text
from svlib import SVEval, render, leaves
from tplpaths import Templates, consistent

PROP = "C06"


def check(ctx):
    P = ctx.P
    S = ctx.S
    reach = P.reachable(ENTRY_POINTS)
    ev = SVEval(S)
    rules = []

    # ---------------------------------------------------------------- D1
    r1 = Rule("C06-D1-precedence", "D1",
              "compute_field_name: rename (if Some) wins; else the container's rename_all convention is applied; else the configured default; "
              "the default field case is snake_case (serde's identity on field names)",
              "testing rename_all before rename, or a camelCase default, changes the key of every field")
    fn = S.fn("NamingContext", "compute_field_name")
    if fn is None:
        r1.bad(V(r1.id, "<anchor>", "missing:compute_field_name", "anchor not found"))
    else:
        params = [b for p in fn.sig["params"] if not p.get("self") for b in [expr_text({"k": "path", "segs": [x]}) for x in __import__("srclib").pat_bindings(p["pat"])]]
        paths = ev.fn_paths(fn, None, lambda n: None)
        # decided as a table over (rename, rename_all) ∈ {Some, None}²: which alternative is taken and what it yields — the same for an
        # if-let chain, early returns, or one `match` on the pair
        from svlib import select_path
        name_p, rename_p, all_p = params[0], params[1], params[2]
        table = {}
        for rn in ("Some", "None"):
            for al in ("Some", "None"):
                table[(rn, al)] = select_path(paths, {rename_p: rn, all_p: al})
        problems = []
        for (rn, al), sel in sorted(table.items()):
            if sel is None:
                problems.append("%s/%s:no-path" % (rn, al))
                continue
            conds, v, certain = sel
            if rn == "Some":
                if not (v[0] in ("var", "maphit")):
                    problems.append("%s/%s:%s" % (rn, al, render(v)[:40]))
            else:
                if not (v[0] == "call" and v[1] == "apply_naming_convention"):
                    problems.append("%s/%s:%s" % (rn, al, render(v)[:40]))
                elif v[2] and v[2][0] != ("var", name_p):
                    r1.bad(V(r1.id, "NamingContext::compute_field_name", "rename_all-subject:%s" % render(v), "rename_all is applied to %s, not to the field name" % render(v[2][0])))
        same_default = table.get(("None", "None")) and table.get(("None", "Some")) and table[("None", "None")][1] == table[("None", "Some")][1]
        if problems or same_default:
            r1.bad(V(r1.id, "NamingContext::compute_field_name", "order:%s" % (",".join(problems) or "rename_all-ignored")[:160],
                     "the alternatives are not ordered rename ▷ rename_all ▷ default: %s" % [(c, render(v)) for c, v in paths]))
        else:
            r1.ok("rename ▷ rename_all ▷ default: %s" % " | ".join(sorted(set(render(t[1]) for t in table.values() if t))))
    # the same table for enum variants (compute_variant_name): a variant-level rename is the literal, whatever the container's rename_all says
    fnv = S.fn("NamingContext", "compute_variant_name")
    if fnv is None:
        r1.bad(V(r1.id, "<anchor>", "missing:compute_variant_name", "anchor not found"))
    else:
        from svlib import select_path
        vparams = [x for p in fnv.sig["params"] if not p.get("self") for x in __import__("srclib").pat_bindings(p["pat"])]
        vpaths = ev.fn_paths(fnv, None, lambda n: None)
        vprob = []
        if len(vparams) >= 3:
            vname, vren, vall = vparams[0], vparams[1], vparams[2]
            for rn in ("Some", "None"):
                for al in ("Some", "None"):
                    sel = select_path(vpaths, {vren: rn, vall: al})
                    if sel is None:
                        vprob.append("%s/%s:no-path" % (rn, al))
                        continue
                    txt = render(sel[1])
                    mentions_name = vname in txt
                    mentions_ren = ("‹%s›" % vren) in txt or "rename" in txt.lower().replace("rename_all", "").replace(vall.lower(), "")
                    if rn == "Some":
                        # the rename's payload as it is: no conversion call around it, the Rust name not involved
                        if sel[1][0] not in ("var", "maphit", "opt") or mentions_name or "apply_to" in txt:
                            vprob.append("%s/%s:%s" % (rn, al, txt[:50]))
                    elif al == "Some":
                        if not mentions_name or sel[1][0] == "var":
                            vprob.append("%s/%s:%s" % (rn, al, txt[:50]))
                    else:
                        if not (sel[1][0] == "var" and mentions_name):
                            vprob.append("%s/%s:%s" % (rn, al, txt[:50]))
            # a convention that is converted by hand instead of through RenameRule::apply_to_variant gets the conversion serde defines for it:
            # lower-casing the first character is camelCase (PascalCase keeps the Rust name, every other rule changes more than one character)
            for conds_, sv_ in vpaths:
                for c_ in conds_:
                    m_ = re.fullmatch(r"matches!\(\s*\w+\s*,\s*(?:\w+\s*::\s*)*(\w+)\s*\)", c_) or re.fullmatch(r"\*?\w+\s*==\s*(?:\w+\s*::\s*)*RenameRule\s*::\s*(\w+)", c_)
                    if not m_:
                        continue
                    txt_ = render(sv_)
                    if "apply_to_variant" in txt_:
                        continue
                    lowers = bool(re.search(r"to_(ascii_)?lowercase\(next\(chars", txt_))
                    conv = m_.group(1)
                    if (lowers and conv != "CamelCase") or (not lowers and txt_ != "‹%s›" % vname and conv == "CamelCase") or (conv not in ("CamelCase", "PascalCase")):
                        vprob.append("hand-written-%s:%s" % (conv, txt_[:40]))
        else:
            vprob.append("signature")
        if vprob:
            r1.bad(V(r1.id, "NamingContext::compute_variant_name", "variant-order:%s" % ",".join(vprob)[:160],
                     "variant names are not decided as rename ▷ rename_all (variant rule) ▷ Rust name: %s" % [(c, render(v)) for c, v in vpaths][:6]))
        else:
            r1.ok("compute_variant_name: rename ▷ rename_all ▷ name")
    # the configured default is snake_case whichever way the configuration is obtained (no file / file without the key): shared with C19-D3
    from c19 import check_default_sources
    vals_ = check_default_sources(S, r1, only={"default_field_case"})
    for v_ in r1.violations:
        v_.rule = r1.id
    if vals_.get("default_field_case") == "snake_case":
        r1.ok("default_field_case defaults to snake_case from every source")
    else:
        r1.bad(V(r1.id, "GenerateConfig", "field-case-default:%s" % vals_.get("default_field_case"), "default_field_case defaults to %r: unattributed fields "
                 "would be renamed although serde keeps them" % vals_.get("default_field_case")))
    dfc = S.fn(None, "default_field_case")
    if dfc is not None:
        ps = ev.fn_paths(dfc)
        val = render(ps[0][1]) if ps else "?"
        if val == "snake_case":
            r1.ok("default_field_case() == \"snake_case\"")
        else:
            r1.bad(V(r1.id, "default_field_case", "default:%s" % val, "the default field case is %s: unattributed fields would be renamed" % val))
    else:
        r1.bad(V(r1.id, "<anchor>", "missing:default_field_case", "anchor not found"))
    r1.require_floor(2, "precedence facts")
    from c04 import check_naming_adds_no_literal
    check_naming_adds_no_literal(S, r1)
    for v_ in r1.violations:
        v_.rule = r1.id
    rules.append(r1)

    # ---------------------------------------------------------------- D2
    r2 = Rule("C06-D2-variant-rule", "D2",
              "the code that builds the contexts of enum variants reaches a variant-rule conversion (RenameRule::apply_to_variant) and does not "
              "apply the field rule or the default field case to variants",
              "serde applies rename_all to variants with the variant rule: SCREAMING_SNAKE_CASE turns HelloWorld into HELLO_WORLD, the field rule gives HELLOWORLD")
    sites = []
    for fid in sorted(reach):
        f = P.fns[fid]
        for c in f.calls:
            if c.path.startswith("serde_rename_rule::RenameRule::apply_to_"):
                sites.append(c)
    variant_sites = [c for c in sites if c.path.endswith("apply_to_variant")]
    if variant_sites:
        for c in variant_sites:
            r2.ok("%s applies the variant rule" % short_path(c.fn.id))
        # the enum path must be selected by is_enum: some caller branches on StructInfo.is_enum to reach it
        guarded = False
        diverted = []
        for fid in sorted(reach):
            f = P.fns[fid]
            for (a, lab, (o, outcome)) in f.branch_edges():
                t = f.describe_origin(o, deep=1)
                if "StructInfo.is_enum" in t and outcome == "true":
                    reg = f.edge_region(a, lab)
                    start = dict(f.succ_edges(a)).get(lab)
                    for b in reg:
                        c = f.call_at(b)
                        if c is not None and any(P.reaches(t2, lambda cc: cc.path.endswith("apply_to_variant"), {}) for t2 in P.targets(c)):
                            guarded = True
                            if start is not None:
                                for (bb, keep, lose) in f.filter_branches(start, b):
                                    o2, _ = f.cond_struct(bb, keep[0])
                                    diverted.append((fid, f.describe_origin(o2, deep=1)))
        for fid, what in diverted:
            r2.bad(V(r2.id, fid, "variant-rule-diverted:%s" % what, "after `is_enum` a further branch on %s can divert enum variants away from the variant-rule conversion" % what))
        if guarded:
            r2.ok("the variant conversion is selected under StructInfo.is_enum")
        else:
            r2.bad(V(r2.id, "<enum-path>", "variant-rule-not-selected-by-is_enum", "no branch on StructInfo.is_enum leads to the variant-rule conversion"))
    else:
        r2.bad(V(r2.id, "tauri_typegen::generators::base::template_context::NamingContext::apply_naming_convention", "only-field-rule",
                 "RenameRule::apply_to_variant is never reached: enum variants are renamed with the field rule (rename_all = \"SCREAMING_SNAKE_CASE\" turns HelloWorld into HELLOWORLD)"))
    r2.require_floor(1, "rename-rule call sites")
    rules.append(r2)

    # ---------------------------------------------------------------- D3
    r3 = Rule("C06-D3-token-structured-attributes", "D3",
              "serde attribute recognition (skip, rename, rename_all, derive list) works on syn meta items; no str::contains/str::find on the "
              "stringified tokens decides which fields appear or how they are named",
              "substring search sees `skip`/`rename` inside other attributes' values: #[serde(default = \"skip_x\")] drops the field, skip_deserializing hides a serialised field")
    targets = [f for f in S.fns if f.body is not None and f.owner in ("SerdeParser",) and f.name.startswith("parse_") and f.name in ("parse_field_serde_attrs", "parse_struct_serde_attrs")]
    targets += [f for f in S.fns if f.body is not None and f.owner == "StructParser" and f.name == "should_include"]
    # helpers they call
    called = set()
    for f in targets:
        for e in walk_block(f.body):
            if e.get("k") == "mcall" and expr_text(e["recv"]) == "self":
                called.add(e["method"])
    for f in list(targets):
        for e in walk_block(f.body):
            if e.get("k") == "call" and e["func"].get("k") == "path" and len(e["func"]["segs"]) == 2 and e["func"]["segs"][0] in ("Self", "SerdeParser"):
                called.add(e["func"]["segs"][1])
    targets += [f for f in S.fns if f.body is not None and f.owner == "SerdeParser" and f.name in called]
    for f in targets:
        lits = []
        for e in walk_block(f.body):
            if e.get("k") == "mcall" and e["method"] in ("contains", "find", "rfind", "starts_with", "split", "split_once") and e["args"]:
                a = e["args"][0]
                recv = expr_text(e["recv"])
                if a.get("k") == "lit" and not recv.endswith(".path()"):
                    lits.append("%s(%r)" % (e["method"], a["lit"]["v"]))
        if lits:
            r3.bad(V(r3.id, "%s::%s" % (f.owner, f.name), "substring-parse:{%s}" % ",".join(sorted(set(lits))),
                     "%s::%s recognises attribute syntax by substring search on the token string: %s" % (f.owner, f.name, sorted(set(lits))), f.file, f.line))
        else:
            r3.ok("%s::%s works on the token structure" % (f.owner, f.name))
    # a value that is skipped must be parsed as ONE expression/literal: an unbounded token-stream parse swallows the rest of the list
    for f in targets:
        for st in [x for x in S.fns if x is f][0:1]:
            pass
        def lets_(stmts):
            for stt in stmts or []:
                if isinstance(stt, dict) and stt.get("k") == "let":
                    yield stt
                for e2 in (stmt_exprs(stt) if isinstance(stt, dict) else []):
                    for x in walk(e2):
                        for key in ("then", "stmts", "body"):
                            v = x.get(key)
                            if isinstance(v, list):
                                yield from lets_(v)
                        if x.get("k") == "closure" and isinstance(x.get("body"), dict) and x["body"].get("k") == "block":
                            yield from lets_(x["body"]["stmts"])
        for lt in lets_(f.body):
            ty = (lt["pat"].get("ty") or "") if lt["pat"].get("k") == "typed" else ""
            it = expr_text(lt["init"]) if lt.get("init") else ""
            if ".value()" in it and ".parse()" in it:
                if re.search(r"TokenStream|TokenTree|\bGroup\b", ty):
                    r3.bad(V(r3.id, "%s::%s" % (f.owner, f.name), "unbounded-value-parse:%s" % re.sub(r"\s+", "", ty),
                             "a meta-item value is parsed as %s, which consumes every remaining token of the attribute list: a `rename`/`skip` written after it is lost" % ty.strip(), f.file, lt.get("ln")))
                else:
                    r3.ok("%s::%s: value parsed as %s" % (f.owner, f.name, ty.strip() or "an inferred bounded type"))
    # every attribute of the item is visited: serde merges all #[serde(..)] attributes of an item, so the loop over `attrs` must not stop early
    def loop_exits(stmts):
        out = []
        for st in stmts:
            for e in stmt_exprs(st):
                stack = [e]
                while stack:
                    x = stack.pop()
                    if not isinstance(x, dict):
                        continue
                    if x.get("k") == "closure":
                        continue          # `return` inside parse_nested_meta's closure leaves the closure, not the loop
                    if x.get("k") in ("break", "return"):
                        out.append(x.get("k"))
                    if x.get("k") in ("for", "while", "loop") and isinstance(x.get("body"), list):
                        continue          # an inner loop's own break
                    stack.extend(children(x))
        return out
    for f in targets:
        from srclib import attribute_loops
        for e in attribute_loops(f):
            if True:
                it = expr_text(e["iter"])
                trunc = re.search(r"\.(take|skip|step_by|nth|last|first)\(", it)
                ex = loop_exits(e["body"])
                if ex or trunc:
                    r3.bad(V(r3.id, "%s::%s" % (f.owner, f.name), "attribute-loop-stops-early:%s" % ",".join(sorted(set(ex)) + ([trunc.group(1)] if trunc else [])),
                             "the loop over the item's attributes can stop before the last attribute (%s): a rename/skip in a later #[serde(..)] is ignored"
                             % (sorted(set(ex)) or trunc.group(1)), f.file, e["ln"]))
                else:
                    r3.ok("%s::%s visits every attribute" % (f.owner, f.name))
    # ... and the walk over the items of one #[serde(..)] is not cut short either: every callback consumes its item's arguments (shared with C11-D4)
    from metawalk import check_meta_walks
    n_walks = check_meta_walks(ctx, r3, lambda fid: "::serde_parser::SerdeParser::" in fid, "#[serde(..)]")
    if not n_walks:
        r3.bad(V(r3.id, "<anchor>", "missing:serde-meta-walk", "anchor not found: no parse_nested_meta walk in SerdeParser"))
    # the text of `rename = ".."` / `rename_all = ".."` is the wire name as it stands — serde accepts any string, the empty one included: between
    # LitStr::value() and the parser's result nothing filters, trims or re-cases it
    ALTER = {"filter", "trim", "trim_start", "trim_end", "trim_matches", "trim_start_matches", "trim_end_matches", "to_lowercase", "to_uppercase",
             "to_ascii_lowercase", "to_ascii_uppercase", "replace", "replacen", "retain", "truncate", "split_whitespace"}
    sv_fns = [k_ for k_ in P.fns if re.search(r"::serde_parser::SerdeParser::string_value($|::\{closure)", k_)]
    if not sv_fns:
        # the extraction may have been inlined or renamed: every body of the serde parser that calls LitStr::value stands for it
        sv_fns = [k_ for k_ in P.fns if "::serde_parser::" in k_ and "{promoted#" not in k_ and any(c.name == "value" and "LitStr" in c.path for c in P.fns[k_].calls)]
    for k_ in sorted(sv_fns):
        g_ = P.fns[k_]
        alt = sorted({c.name for c in g_.calls if c.bb in g_.reach_blocks and c.name in ALTER})
        if alt:
            r3.bad(V(r3.id, k_, "attribute-value-altered:%s" % ",".join(alt), "%s passes the attribute's string value through %s: `rename = \"\"` (or a value with blanks / capitals) "
                     "is no longer the literal serde writes" % (short_path(k_), ", ".join(alt)), g_.file, g_.line))
        else:
            r3.ok("%s hands the literal's text on unaltered" % short_path(k_))
    if not sv_fns:
        r3.bad(V(r3.id, "<anchor>", "missing:serde-string-value", "no function of the serde parser reads a string literal's value"))
    r3.require_floor(7, "attribute recognisers + item walks")
    rules.append(r3)

    # ---------------------------------------------------------------- D4
    r4 = Rule("C06-D4-skip-filter", "D4",
              "StructParser::parse_field returns None exactly when the parsed field attributes say skip (or the field has no identifier)",
              "any other early None silently removes a field that serde serialises")
    pf = P.find("StructParser::parse_field")
    if not pf:
        r4.bad(V(r4.id, "<anchor>", "missing:parse_field", "anchor not found"))
    else:
        f = pf[0]
        nones = []
        for b in sorted(f.reach_blocks):
            for st in f.blocks[b]["stmts"]:
                rv = st.get("rv")
                if rv and st["lhs"]["l"] == 0 and not st["lhs"].get("p") and rv["k"] == "aggr" and rv.get("variant") == "None":
                    nones.append(b)
        reasons = []
        for b in nones:
            conds = f.must_conditions(b)
            skip = [c for c in conds if re.search(r"SerdeFieldAttributes\.skip=true", c)]
            ident = [c for c in conds if "as_ref" in c or "Option::<T>::as_ref" in c or "ident" in c]
            if skip:
                reasons.append("skip")
            elif any("=None" in c for c in conds):
                reasons.append("no-ident")
            else:
                reasons.append("other:" + ",".join(conds))
        # `?` on field.ident.as_ref() compiles to a from_residual return rather than an explicit None
        bad = [r for r in reasons if r.startswith("other:")]
        if "skip" in reasons and not bad:
            r4.ok("parse_field: None only under skip=true (and for fields without identifier)")
        else:
            r4.bad(V(r4.id, f.id, "none-exits:%s" % ",".join(sorted(reasons)), "parse_field returns None under %s" % reasons))
        # the skip flag itself: set under exactly the `skip` meta
    r4.require_floor(1, "skip facts")
    rules.append(r4)

    # ---------------------------------------------------------------- D5
    r5 = Rule("C06-D5-hole-binding", "D5",
              "interface keys, z.object keys, enum literals and the Rust-side z.enum literals are bound to the serialized name, never to the Rust name",
              "a key bound to field.name ignores rename/rename_all entirely")
    T = Templates(S)
    wants = [("typescript/partials/interface.tera", r"⟦(field\.\w+)(?:\|[^⟧]*)?⟧\??\s*:"),
             ("typescript/partials/enum.tera", r"\"⟦(field\.\w+)(?:\|[^⟧]*)?⟧\""),
             ("zod/partials/schema.ts.tera", r"⟦(field\.\w+)(?:\|[^⟧]*)?⟧\s*:")]
    for name, rx in wants:
        ps = T.paths(name) or []
        found = set()
        for p in ps:
            flat = p.flat(loop=lambda it: "".join(bp.flat() for bp in it[3][:4]))
            for m in re.finditer(rx, flat):
                found.add(m.group(1))
        if found == {"field.serializedName"}:
            r5.ok("%s: key/literal hole is field.serializedName" % name)
        else:
            r5.bad(V(r5.id, name, "key-binding:%s" % ",".join(sorted(found)), "key/literal holes are bound to %s" % sorted(found)))
    ge = [f for f in S.fns if f.owner == "ZodBindingsGenerator" and f.name == "generate_enum_schema"]
    if ge:
        ps = ev.fn_paths(ge[0])
        lv = [l for l in leaves(ps[0][1]) if l[0] == "var"] if ps else []
        names = [l[1] for l in lv if l[1].startswith("field.")]
        if names == ["field.serialized_name"]:
            r5.ok("generate_enum_schema literals are field.serialized_name")
        else:
            r5.bad(V(r5.id, "ZodBindingsGenerator::generate_enum_schema", "literal-binding:%s" % ",".join(names), "z.enum literals are bound to %s" % names))
    else:
        r5.bad(V(r5.id, "<anchor>", "missing:generate_enum_schema", "anchor not found"))
    # serialized_name is computed by compute_field_name / the variant conversion
    ff = P.find("FieldContext::from_field_info")
    for f in ff:
        okc = False
        for blk in f.blocks:
            for st in blk["stmts"]:
                lp = st.get("lhs", {}).get("p", [])
                if lp and lp[-1]["k"] == "field" and lp[-1].get("name") == "serialized_name" and st["rv"]["k"] == "use":
                    t = f.describe_origin(f.origin(st["rv"]["op"]), deep=1)
                    if "compute_field_name" in t or "compute_variant_name" in t:
                        okc = True
        if okc:
            r5.ok("FieldContext.serialized_name = compute_field_name(..)")
        else:
            r5.bad(V(r5.id, f.id, "serialized-name-origin", "FieldContext.serialized_name is not computed by the naming functions"))
    r5.require_floor(5, "hole bindings")
    # the Rust name that the serialized name is computed from is the identifier serde sees: `r#type` is the field `type`.  Every construction
    # site of FieldInfo.name (struct fields and enum variants) unraws the identifier (seed analysis shared with C01's producer model); a quoted
    # key "r#type" is valid TypeScript, so C01 has nothing to say about it
    from c01 import Producers as _Prod
    pm = _Prod(S, ev)
    for (m_, fld_) in (("FieldInfo", "name"),):
        if "raw" in pm.model.get((m_, fld_), ()):
            r5.bad(V(r5.id, "%s.%s" % (m_, fld_), "raw-identifier-kept:%s.%s" % (m_, fld_), "%s.%s keeps the `r#` prefix of a raw identifier at some construction site: "
                     "the key of `pub r#type: T` becomes \"r#type\" where serde writes \"type\"" % (m_, fld_)))
        else:
            r5.ok("%s.%s is the unraw'd identifier at every construction site" % (m_, fld_))
    rules.append(r5)

    return finish(
        PROP, ctx, rules,
        "Path order of compute_field_name (SV), reachability of the variant rule under is_enum (CALLS/CTRL), substring-search sites of the "
        "serde attribute recognisers, None-exit guards of parse_field, hole bindings of keys and literals.",
        ["that serde_rename_rule's tables equal serde's (the crate is an extract of serde_derive)",
         "serde's rename(serialize = .., deserialize = ..) asymmetric forms"],
        ["serde's documented rules: item rename ▷ container rename_all ▷ Rust name; field rule for fields, variant rule for variants"])

"""rulelib — generic rule kinds over the MIR facts: CALLS, ORDER, ERRPROP, helper tables."""
import re
from collections import deque

from mirlib import Call, op_place, op_const, short_path

# --- Filesystem mutators (DESIGN Appendix C).  Matched on the callee path with generics stripped.
FS_MUTATORS = {
    "std::fs::write", "std::fs::remove_file", "std::fs::remove_dir", "std::fs::remove_dir_all",
    "std::fs::rename", "std::fs::copy", "std::fs::create_dir", "std::fs::create_dir_all",
    "std::fs::hard_link", "std::fs::set_permissions", "std::fs::File::create",
    "std::fs::File::create_new", "std::fs::OpenOptions::open", "std::os::unix::fs::symlink",
    "std::fs::File::set_len", "std::fs::soft_link",
}
FS_READERS = {"std::fs::read_to_string", "std::fs::read", "std::fs::read_dir", "std::fs::metadata",
              "std::fs::File::open"}

TRY_BRANCH = "std::ops::Try::branch"
FROM_RESIDUAL = "std::ops::FromResidual::from_residual"


def strip_generics(p):
    """`std::fs::write::<P, C>` / `Vec::<T>::push` -> without ::<..> groups"""
    out = []
    depth = 0
    i = 0
    while i < len(p):
        if p.startswith("::<", i) and depth == 0:
            depth = 1
            i += 3
            while i < len(p) and depth:
                if p[i] == "<":
                    depth += 1
                elif p[i] == ">":
                    depth -= 1
                i += 1
            continue
        out.append(p[i])
        i += 1
    return "".join(out)


def callee_name(c):
    """normalised callee path (declared path; generics live in c.generics)"""
    return strip_generics(c.path)


def is_fs_mut(c):
    return callee_name(c) in FS_MUTATORS


def is_try_branch(c):
    return c.path == TRY_BRANCH


def fs_mut_sites(P, fns=None):
    out = []
    for f in (fns if fns is not None else P.fns.values()):
        if "{promoted#" in f.id:
            continue
        for c in f.calls:
            if is_fs_mut(c):
                out.append(c)
    return out


def reaches_fs_mut(P, memo):
    """predicate factory: does function id (transitively) perform a filesystem mutation"""
    def pred(fid):
        return P.reaches(fid, is_fs_mut, memo)
    return pred


def calls_named(f, suffix):
    """calls in f whose resolved/declared path ends with `suffix` (generics stripped)"""
    out = []
    for c in f.calls:
        for p in (c.resolved, c.path):
            if p and (strip_generics(p) == suffix or strip_generics(p).endswith("::" + suffix)):
                out.append(c)
                break
    return out


# ------------------------------------------------------------------ forward value flow

PASS_THROUGH = (
    "std::result::Result::<T, E>::map_err", "std::result::Result::<T, E>::map",
    "std::convert::Into::into", "std::convert::From::from", "std::result::Result::<T, E>::or_else",
    "std::result::Result::<T, E>::and_then",
)


def forward_uses(f, start_local, max_steps=200):
    """Follow a value forward through moves/copies/refs and pass-through calls.
    Returns list of ('call', Call, argidx) | ('ret',) | ('drop', bb) | ('switch', bb) sinks."""
    sinks = []
    seen = set()
    work = deque([start_local])
    steps = 0
    while work and steps < max_steps:
        l = work.popleft()
        if l in seen:
            continue
        seen.add(l)
        steps += 1
        if l == 0:
            sinks.append(("ret",))
            continue
        for b, blk in enumerate(f.blocks):
            for st in blk["stmts"]:
                rv = st.get("rv")
                if not rv:
                    continue
                srcs = []
                k = rv["k"]
                if k in ("use", "cast", "repeat"):
                    p = op_place(rv["op"])
                    if p:
                        srcs.append(p)
                elif k in ("ref", "copy_for_deref", "rawptr", "discr"):
                    srcs.append(rv["place"])
                elif k == "aggr":
                    for o in rv["ops"]:
                        p = op_place(o)
                        if p:
                            srcs.append(p)
                for p in srcs:
                    if p["l"] == l:
                        if k == "discr":
                            sinks.append(("discr", b, st["lhs"]["l"]))
                        else:
                            work.append(st["lhs"]["l"])
            t = blk["term"]
            if t["k"] == "call":
                for i, a in enumerate(t["args"]):
                    p = op_place(a)
                    if p and p["l"] == l:
                        c = Call(f, b, t)
                        sinks.append(("call", c, i))
                        if any(c.path == pt or strip_generics(c.path) == strip_generics(pt) for pt in PASS_THROUGH):
                            if not t["dest"].get("p"):
                                work.append(t["dest"]["l"])
            elif t["k"] == "drop":
                if t["place"]["l"] == l and not t["place"].get("p"):
                    sinks.append(("drop", b))
    return sinks


def _outer_try_of_slot(f, slot):
    """the caller-level call-like carrier of an inlined helper's result: a pseudo call object whose dest is the local that receives `slot`"""
    for b, blk in enumerate(f.blocks):
        for st in blk["stmts"]:
            rv = st.get("rv") or {}
            if rv.get("k") == "use" and "lhs" in st and not st["lhs"].get("p"):
                q = op_place(rv["op"])
                if q is not None and q["l"] == slot and not q.get("p") and st["lhs"]["l"] != slot:
                    class _Carrier:
                        pass
                    c = _Carrier()
                    c.dest = {"l": st["lhs"]["l"]}
                    c.bb = b
                    return c
    return None


def try_propagated(f, call, _depth=0):
    """ERRPROP: the Result produced by `call` flows into `Try::branch` whose Break arm reaches
    `from_residual` into the return place, or the value is returned directly.  Returns
    (ok: bool, how: str, branch_block or None)."""
    if call.dest.get("p"):
        return (False, "result stored through a projection", None)
    d = call.dest["l"]
    if d == 0:
        return (True, "returned directly", None)
    sinks = forward_uses(f, d)
    for s in sinks:
        if s[0] == "ret":
            return (True, "returned directly", None)
    for s in sinks:
        if s[0] == "call" and is_try_branch(s[1]) and s[2] == 0:
            bc = s[1]
            # the switch on the ControlFlow discriminant follows; find Break edge
            tb = bc.target
            if tb is None:
                continue
            sw = f.blocks[tb]["term"]
            if sw["k"] != "switch":
                continue
            brk = None
            for v, tgt in sw["targets"]:
                o = f.origin(sw["discr"])
                if o[0] == "discr" and o[2].get(str(v)) == "Break":
                    brk = tgt
            if brk is None:
                # otherwise edge may be Break
                o = f.origin(sw["discr"])
                if o[0] == "discr":
                    named = {o[2].get(str(v)) for v, _ in sw["targets"]}
                    if "Break" not in named:
                        brk = sw["otherwise"]
            if brk is None:
                continue
            # from Break target, a from_residual call writing _0 must be reached before return
            seen = {brk}
            dq = deque([brk])
            found = False
            while dq:
                x = dq.popleft()
                t = f.blocks[x]["term"]
                if t["k"] == "call":
                    c = Call(f, x, t)
                    if c.path == FROM_RESIDUAL and c.dest["l"] == 0 and not c.dest.get("p"):
                        found = True
                        break
                    # the `?` sits in a helper that was spliced in: its `return Err(..)` writes the helper's result slot, which the caller
                    # in turn propagates with its own `?` (checked the same way, one level up)
                    if c.path == FROM_RESIDUAL and not c.dest.get("p") and f.blocks[x].get("inl") and _depth < 4:
                        outer = _outer_try_of_slot(f, c.dest["l"])
                        if outer is not None and try_propagated(f, outer, _depth + 1)[0]:
                            found = True
                            break
                for y in f.succ[x]:
                    if y not in seen:
                        seen.add(y)
                        dq.append(y)
            if found:
                return (True, "? operator (Try::branch + from_residual into return place)", tb)
    kinds = sorted(set(("%s %s" % (s[0], short_path(s[1].best)) if s[0] == "call" else s[0]) for s in sinks))
    return (False, "result is not propagated; uses: " + (", ".join(kinds) if kinds else "none (dropped)"), None)


def result_killed_unexamined(f, call):
    """Path check that complements try_propagated (which asks whether the Result *can* flow into `?`): starting after `call`, is there a path on
    which the place holding its Result is dropped or assigned again before anything read it (matched on it, borrowed it, passed it on)?
    That is the `let mut r = Ok(()); for .. { r = step(); } r?` shape: only the last Result is looked at.  Plain moves into another local are
    followed (`r = move tmp`).
    -> None, or a short description of the kill."""
    if call.dest.get("p") or call.target is None:
        return None
    d0 = call.dest["l"]
    if d0 == 0:
        return None
    seen = {(call.target, d0)}
    work = [(call.target, d0)]
    while work:
        b, d = work.pop()
        blk = f.blocks[b]
        examined = False
        killed = None
        returned = False

        def reads(op):
            p = op_place(op)
            return p is not None and p["l"] == d
        for st in blk["stmts"]:
            rv = st.get("rv")
            if rv:
                k = rv["k"]
                if k == "use" and reads(rv["op"]) and not op_place(rv["op"]).get("p") and "lhs" in st and not st["lhs"].get("p"):
                    d = st["lhs"]["l"]       # moved as a whole: keep following it
                    if d == 0:
                        returned = True
                        break
                    continue
                ops = []
                if k in ("use", "cast", "repeat", "un"):
                    ops = [rv.get("op") or rv.get("a")]
                elif k == "bin":
                    ops = [rv["a"], rv["b"]]
                elif k == "aggr":
                    ops = rv["ops"]
                if any(o is not None and reads(o) for o in ops) or (k in ("ref", "copy_for_deref", "rawptr", "discr", "len") and rv.get("place", {}).get("l") == d):
                    examined = True
                    break
            if "lhs" in st and st["lhs"]["l"] == d and not st["lhs"].get("p"):
                killed = "assigned again"
                break
        if examined or returned:
            continue
        t = blk["term"]
        if killed is None:
            if t["k"] == "call":
                if any(reads(a) for a in t["args"]):
                    continue
                if t["dest"]["l"] == d and not t["dest"].get("p"):
                    killed = "assigned again by %s" % short_path(Call(f, b, t).best)
            elif t["k"] == "drop" and t["place"]["l"] == d and not t["place"].get("p"):
                killed = "dropped"
            elif t["k"] == "switch" and reads(t["discr"]):
                continue
            elif t["k"] == "return":
                continue
        if killed:
            return "%s (bb%d) before anything looked at it" % (killed, b)
        for (_, y) in f.succ_edges(b):
            if (y, d) not in seen:
                seen.add((y, d))
                work.append((y, d))
    return None


def continue_edge_of_try(f, call):
    """(switch_block, label) of the Continue edge of the `?` applied to `call`'s result, or None.  For a call inside a spliced-in helper the
    edge that matters to the caller is the one of the caller's own `?` on the helper's result (the helper returns Ok only past its inner `?`)."""
    ok, how, tb = try_propagated(f, call)
    if not ok or tb is None:
        return None
    if f.blocks[call.bb].get("inl"):
        # climb: find the from_residual of this `?`, the slot it writes, and the caller-level `?` of that slot
        sw0 = f.blocks[tb]["term"]
        seen_ = set()
        work_ = [y for (_, y) in f.succ_edges(tb)]
        while work_:
            x = work_.pop()
            if x in seen_:
                continue
            seen_.add(x)
            t_ = f.blocks[x]["term"]
            if t_["k"] == "call":
                c_ = Call(f, x, t_)
                if c_.path == FROM_RESIDUAL and not c_.dest.get("p") and c_.dest["l"] != 0:
                    outer = _outer_try_of_slot(f, c_.dest["l"])
                    if outer is not None:
                        e_ = continue_edge_of_try(f, outer) if not f.blocks[outer.bb].get("inl") else continue_edge_of_try(f, outer)
                        if e_ is not None:
                            return e_
                    break
                continue
            work_.extend(f.succ[x])
    sw = f.blocks[tb]["term"]
    o = f.origin(sw["discr"])
    if o[0] != "discr":
        return None
    for v, tgt in sw["targets"]:
        if o[2].get(str(v)) == "Continue":
            return (tb, str(v))
    named = {o[2].get(str(v)) for v, _ in sw["targets"]}
    if "Continue" not in named:
        return (tb, "otherwise")
    return None


def blocks_reachable_from(f, b, include_start=False):
    seen = set()
    dq = deque(f.succ[b])
    seen.update(dq)
    while dq:
        x = dq.popleft()
        for y in f.succ[x]:
            if y not in seen:
                seen.add(y)
                dq.append(y)
    if include_start:
        seen.add(b)
    return seen


def fn_key(fid):
    """function id without crate prefix noise for keys"""
    return fid


CACHE_IMPL = "tauri_typegen::build::generation_cache::GenerationCache::"


def is_cache_check(c):
    """call of GenerationCache::needs_regeneration* (any variant)"""
    for p in (c.resolved, c.path):
        if p and strip_generics(p).startswith(CACHE_IMPL + "needs_regeneration"):
            return True
    return False


def is_cache_new(c):
    for p in (c.resolved, c.path):
        if p and re.match(re.escape(CACHE_IMPL) + r"new(_\w+)?$", strip_generics(p)):
            return True
    return False


def arg_by_type(c, pattern):
    """operand of call c whose static type matches `pattern` (regex), else None"""
    tys = c.term.get("arg_tys", [])
    for a, t in zip(c.args, tys):
        if re.search(pattern, t):
            return a
    return None


ARG_TYPES = {
    "commands": r"^&\[tauri_typegen::(models::)?CommandInfo\]$",
    "structs": r"^&std::collections::HashMap<std::string::String, tauri_typegen::(models::)?StructInfo>$",
    "config": r"^&tauri_typegen::(interface::config::)?GenerateConfig$",
    "events": r"^&\[tauri_typegen::(models::)?EventInfo\]$",
}


# ---------------------------------------------------------------------------------------------------------------- path-wise constants
def enumerate_paths(f, target_bb, max_paths=256, start=0):
    """acyclic block paths start -> target_bb over normal edges: list of [(block, label taken to leave it)...] ending with (target_bb, None)"""
    out = []
    can_reach = {target_bb}
    grew = True
    while grew:
        grew = False
        for b in range(len(f.blocks)):
            if b not in can_reach and any(y in can_reach for (_, y) in f.succ_edges(b)):
                can_reach.add(b)
                grew = True
    stack = [(start, [])]
    while stack and len(out) < max_paths:
        b, path = stack.pop()
        if b == target_bb:
            out.append(path + [(b, None)])
            continue
        for (lab, y) in f.succ_edges(b):
            if y in can_reach and all(y != pb for (pb, _) in path) and y != b:
                stack.append((y, path + [(b, lab)]))
    return out


def path_int_env(f, path):
    """integer constants known along one path: {local: int} after the last block; also the list of (block, Call, [arg ints or None]) met and
    the list of (cond origin, outcome) taken.  Understands const assignment, copies, checked/unchecked Add/Sub with known operands and the
    `.0` of a checked-arithmetic pair."""
    env = {}
    pairs = {}
    calls = []
    conds = []

    def val(op):
        if not isinstance(op, dict):
            return None
        c = op.get("const")
        if c is not None:
            return c.get("int") if isinstance(c.get("int"), int) else None
        pl = op.get("copy") or op.get("move")
        if pl is None:
            return None
        if not pl.get("p"):
            return env.get(pl["l"])
        if len(pl["p"]) == 1 and pl["p"][0].get("k") == "field" and pl["p"][0].get("i") == 0 and pl["l"] in pairs:
            return pairs[pl["l"]]
        return None
    for (b, lab) in path:
        blk = f.blocks[b]
        for st in blk["stmts"]:
            lhs = st.get("lhs")
            if lhs is None or lhs.get("p"):
                continue
            rv = st.get("rv") or {}
            k = rv.get("k")
            env.pop(lhs["l"], None)
            pairs.pop(lhs["l"], None)
            if k in ("use", "cast"):
                v = val(rv["op"])
                if v is not None:
                    env[lhs["l"]] = v
            elif k == "bin" and rv["op"] in ("Add", "Sub", "AddUnchecked", "SubUnchecked", "AddWithOverflow", "SubWithOverflow"):
                a, c2 = val(rv["a"]), val(rv["b"])
                if a is not None and c2 is not None:
                    r = a + c2 if rv["op"].startswith("Add") else a - c2
                    if rv["op"].endswith("WithOverflow"):
                        pairs[lhs["l"]] = r
                    else:
                        env[lhs["l"]] = r
        t = blk["term"]
        if t["k"] == "call":
            c = f.call_at(b)
            calls.append((b, c, [val(a) for a in t["args"]]))
            if not t["dest"].get("p"):
                env.pop(t["dest"]["l"], None)
        if lab is not None and t["k"] == "switch":
            o, outcome = f.cond_struct(b, lab)
            # a comparison whose operands are known on this path
            pl = t["discr"].get("copy") or t["discr"].get("move")
            ds = f.defs.get(pl["l"], []) if pl and not pl.get("p") else []
            cmpv = None
            if len(ds) == 1 and ds[0][0] == "stmt" and ds[0][3]["k"] == "bin" and ds[0][3]["op"] in ("Lt", "Le", "Gt", "Ge", "Eq", "Ne"):
                cmpv = (ds[0][3]["op"], ds[0][3]["a"], val(ds[0][3]["a"]), ds[0][3]["b"], val(ds[0][3]["b"]))
            conds.append((b, o, outcome, cmpv))
    return env, calls, conds


# ---------------------------------------------------------------- path-wise values (small enums carried between two matches)
TRANSPARENT_CONV = ("to_string", "to_owned", "into", "from", "clone", "deref", "as_str", "as_ref", "borrow")


def path_value(f, path, op, upto=None, depth=8):
    """canonical text of the value an operand has at the end of one path (or before position `upto` = (path index, statement index)), when that value is
    a constant built on the path: literals, unit variants, aggregates of such, seen through copies, references and text conversions; None otherwise."""
    import json as _json
    if depth < 0 or not isinstance(op, dict):
        return None
    c = op.get("const")
    if c is not None:
        return _json.dumps({k_: v_ for k_, v_ in c.items() if k_ not in ("ty", "span")}, sort_keys=True, default=str)
    pl = op.get("copy") or op.get("move")
    if pl is None:
        return None
    return _path_place_value(f, path, pl, upto if upto is not None else (len(path), 0), depth)


def _path_place_value(f, path, pl, upto, depth):
    import json as _json
    proj = [p_ for p_ in pl.get("p", []) if p_.get("k") != "deref"]
    if proj:
        return None
    l = pl["l"]
    pi, si = upto
    for i in range(min(pi, len(path) - 1), -1, -1):
        b = path[i][0]
        blk = f.blocks[b]
        # the call terminating block i defines its destination for the blocks after it
        if i < pi and blk["term"]["k"] == "call" and not blk["term"]["dest"].get("p") and blk["term"]["dest"]["l"] == l:
            c = f.call_at(b)
            if c is not None and c.name in TRANSPARENT_CONV and c.args:
                return path_value(f, path, c.args[0], (i, len(blk["stmts"])), depth - 1)
            return None
        stmts = blk["stmts"]
        hi = si if i == pi else len(stmts)
        for k in range(min(hi, len(stmts)) - 1, -1, -1):
            st = stmts[k]
            lhs = st.get("lhs")
            if lhs is None or lhs["l"] != l:
                continue
            if lhs.get("p"):
                return None         # written piecewise
            rv = st.get("rv") or {}
            kk = rv.get("k")
            if kk in ("use", "cast"):
                return path_value(f, path, rv["op"], (i, k), depth - 1)
            if kk in ("ref", "copy_for_deref"):
                return _path_place_value(f, path, rv["place"], (i, k), depth - 1)
            if kk == "aggr":
                parts = [path_value(f, path, a, (i, k), depth - 1) for a in rv.get("ops", [])]
                if any(x is None for x in parts):
                    return None
                return _json.dumps({"agg": rv.get("agg"), "adt": rv.get("adt"), "variant": rv.get("variant"), "ops": parts}, sort_keys=True)
            return None
    if 1 <= l <= f.arg_count:
        return None
    return None


def path_feasible(f, path):
    """False when the path takes a branch that contradicts a unit variant it assigned earlier (`shape = Unit; .. match shape { Tuple => <here> }`)"""
    import json as _json
    for i, (b, lab) in enumerate(path):
        t = f.blocks[b]["term"]
        if lab is None or t["k"] != "switch":
            continue
        pl = t["discr"].get("copy") or t["discr"].get("move")
        if pl is None or pl.get("p"):
            continue
        # discr local <- discriminant(place) on this path
        src = None
        for i2 in range(i, -1, -1):
            stmts = f.blocks[path[i2][0]]["stmts"]
            for st in reversed(stmts):
                if st.get("lhs") and st["lhs"]["l"] == pl["l"] and not st["lhs"].get("p"):
                    rv = st.get("rv") or {}
                    if rv.get("k") == "discr":
                        src = (rv, i2, stmts.index(st))
                    break
            else:
                continue
            break
        if src is None:
            continue
        rv, i2, k2 = src
        v = _path_place_value(f, path, rv["place"], (i2, k2), 6)
        if v is None:
            continue
        try:
            var = _json.loads(v).get("variant")
        except Exception:  # noqa
            continue
        if var is None:
            continue
        outcome = f.cond_struct(b, lab)[1]
        if var not in str(outcome).split("|"):
            return False
    return True


def cli_value_cond(cond, name):
    """outcome asserted about the command-line value `name` by a condition text, or None: the value is the function's parameter of that name, or the
    field of that name of a parameter struct the caller filled from the parsed arguments (`options.force`), possibly read with `.take()`"""
    m = re.fullmatch(r"(?:take\()?arg:(?:\w+\.[\w:<>, ]+\.)?%s\)?=(\w+)" % re.escape(name), cond)
    return m.group(1) if m else None


# ---------------------------------------------------------------- whole-file writes (shared by C01-D?, C14, C17)
def check_whole_file_writes(P, rule, reach, scope=lambda fid: True, what="file"):
    """A file the tool produces is replaced as a whole or the write fails as a whole.  For every crate function in scope that is reachable:
      * `OpenOptions::open` for writing needs `truncate(true)` (or `append`/`create_new`): otherwise a shorter new content keeps the tail of the old one;
      * `Write::write` (one call, may write only part) is not a write of the content: its byte count must be looped on, which is what `write_all` does.
    `fs::write` and `File::create` + `write_all` are the accepted idioms.  -> number of write sites looked at"""
    n = 0
    for fid in sorted(reach):
        f = P.fns.get(fid)
        if f is None or "{promoted" in fid or not fid.startswith(("tauri_typegen::", "cargo_tauri_typegen::", "<tauri_typegen::")) or not scope(fid):
            continue
        for c in f.calls:
            if c.bb not in f.reach_blocks:
                continue
            cn = callee_name(c)
            if cn == "std::fs::OpenOptions::open":
                n += 1
                chain = f.describe_origin(f.origin(c.args[0]), deep=8) if c.args else ""
                flags = dict(re.findall(r"OpenOptions::(\w+)\([^()]*?(true|false)\)", chain))
                # the chain text nests calls: collect every `OpenOptions::flag(.., true)` on it
                flags = {}
                for m in re.finditer(r"OpenOptions::(write|truncate|append|create_new|create|read)\(", chain):
                    flags[m.group(1)] = True
                writes = "write" in flags or "append" in flags
                if writes and not ("truncate" in flags or "append" in flags or "create_new" in flags):
                    rule.bad(V_(rule, f.id, "open-for-write-without-truncate",
                                "%s opens a %s for writing without truncate(true): when the new content is shorter than the old one the old tail stays behind it" % (short_path(f.id), what), c))
                else:
                    rule.ok("%s: OpenOptions chain %s" % (short_path(f.id), sorted(flags)))
            elif c.name == "write" and (c.trait == "std::io::Write") and re.search(r"std::fs::File|BufWriter<std::fs::File", c.self_ty or " ".join(c.generics)):
                n += 1
                rule.bad(V_(rule, f.id, "partial-write",
                            "%s writes a %s with a single Write::write call: a short write returns Ok(n) and the rest of the content is silently missing (write_all loops)" % (short_path(f.id), what), c))
            elif cn == "std::fs::write" or (c.name == "write_all" and c.trait == "std::io::Write" and re.search(r"std::fs::File", c.self_ty or "")):
                n += 1
                rule.ok("%s: %s" % (short_path(f.id), short_path(c.path)))
    return n


def V_(rule, where, key, text, c):
    from common import V
    return V(rule.id, where, key, text, c.file, c.line)


# ---------------------------------------------------------------- loops that must run to exhaustion
def loop_exits(f, around_bb, drivers=("next", "pop", "pop_front", "pop_back", "next_back")):
    """exits of the innermost natural loop around block `around_bb` other than the exhaustion of its driver (`next()` / `pop()` answering None):
    -> (driver Call or None, [(from block, to block, text of the condition, kind)]) with kind 'break' (control continues after the loop) or
    'return' (the function is left: an abort of the whole activation).  Error propagation (`?`: the edge leads to from_residual) is not listed."""
    if isinstance(around_bb, tuple):
        h, body = around_bb             # a loop given as (header, body)
    else:
        loops = [(h, body) for (h, body) in f._natural_loops() if around_bb in body]
        if not loops:
            return None, []
        h, body = min(loops, key=lambda hb: len(hb[1]))
    driver = None
    for b in sorted(body):
        c = f.call_at(b)
        if c is not None and c.name in drivers and (driver is None or f.dominates(c.bb, driver.bb)):
            driver = c
    out = []
    for b in sorted(body):
        t = f.blocks[b]["term"]
        for (lab, succ) in f.succ_edges(b):
            if succ in body or succ not in f.reach_blocks or lab in ("unwind", "cleanup") or f.blocks[succ]["term"]["k"] == "unreachable":
                continue
            try:
                o, outcome = f.cond_struct(b, lab)
            except Exception:  # noqa
                o, outcome = ("?",), "?"
            if o[0] == "call" and driver is not None and o[1].bb == driver.bb and outcome == "None":
                continue
            if o[0] == "call" and driver is not None and o[1].name == "is_empty" and outcome == "true" and o[1].args and driver.args:
                # `while !queue.is_empty() { let x = queue.pop().unwrap(); .. }`: the same exhaustion, tested on the driver's own collection
                from unord import Unord
                if Unord._base_local(None, f, o[1].args[0]) == Unord._base_local(None, f, driver.args[0]):
                    continue
            # `?`: the edge leads (through drops) to a from_residual call
            x, hops, is_try = succ, 0, False
            while hops < 6:
                cx = f.call_at(x)
                if cx is not None and cx.name == "from_residual":
                    is_try = True
                    break
                nxt = [y for (_, y) in f.succ_edges(x)]
                if len(nxt) != 1 or f.blocks[x]["stmts"] and cx is not None:
                    break
                x = nxt[0]
                hops += 1
            if is_try or (o[0] == "call" and o[1].name == "branch"):
                continue
            # does control come back to code after the loop, or is the function left?
            after = blocks_reachable_from(f, succ, include_start=True)
            kind = "return" if all(f.blocks[y]["term"]["k"] in ("return", "goto", "drop", "resume", "unreachable") and not f.blocks[y]["stmts"] for y in after if y not in body) else "break"
            out.append((b, succ, "%s=%s" % (f.describe_origin(o, deep=2)[:70], outcome), kind))
    return driver, out


def all_loop_exits(f):
    """loop_exits for every natural loop of f: [(driver, exits)]"""
    return [loop_exits(f, (h, body)) for (h, body) in f._natural_loops() if h in f.reach_blocks]


def family_strs(P, S, fid):
    """string constants a function mentions, in its own body, its closures and promoted constants, and — a table of literals given a name
    (`const CONTENT_FILES: [&str; 3] = [..]`, module-level or local) — in the constant arrays it refers to"""
    import json as _json
    from srclib import lit_str as _ls
    out = []
    for k in P.family(fid):
        g = P.fns.get(k)
        if g is None:
            continue
        out += g.const_strs()
        for m in re.finditer(r'"item": "([^"]+)"', _json.dumps(g.blocks)):
            c = S.consts.get(m.group(1).split("::")[-1])
            e = c.get("expr") if c else None
            while isinstance(e, dict) and e.get("k") in ("ref", "paren"):
                e = e["expr"]
            if isinstance(e, dict) and e.get("k") == "array":
                out += [x for x in (_ls(y) for y in e["elems"]) if x is not None]
    return out

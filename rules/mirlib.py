"""mirlib — Python view of the MIR facts written by engines/mirfacts.

Per function: CFG (normal edges; unwind edges kept apart), dominators, post-dominators,
control dependence with edge labels, def sites of locals, value-origin tracing.
Whole program: call graph (direct, trait-dispatched to all impls, closure/fn-item references),
reachability from entry points.

Nothing here executes repository code: it only reads the fact files.
"""
import json
import os
import re
from collections import defaultdict, deque

LIB = "tauri_typegen"
BIN = "cargo_tauri_typegen"

ENTRY_POINTS = [
    "cargo_tauri_typegen::main",
    "tauri_typegen::interface::generate_from_config",
    "tauri_typegen::build::BuildSystem::generate_at_build_time",
]


def place_local(p):
    return p["l"]


def place_proj(p):
    return p.get("p", [])


def op_place(op):
    """place of a copy/move operand, else None"""
    if op is None:
        return None
    return op.get("copy") or op.get("move")


def op_const(op):
    return op.get("const") if op else None


def const_fn(op):
    c = op_const(op)
    if c:
        return c.get("fn")
    return None


class Call:
    """A call terminator."""
    __slots__ = ("fn", "bb", "term", "callee", "path", "resolved", "rkind", "trait", "name",
                 "self_ty", "generics", "args", "dest", "target", "unwind", "file", "line",
                 "snip", "exp")

    def __init__(self, fn, bb, term):
        self.fn = fn
        self.bb = bb
        self.term = term
        c = const_fn(term["func"])
        self.callee = c
        if c:
            self.path = c["path"]
            self.resolved = c.get("resolved") if c.get("rkind") not in ("unresolved", "error", None) else None
            self.rkind = c.get("rkind")
            self.trait = c.get("trait")
            self.name = c.get("name")
            self.self_ty = c.get("self_ty")
            self.generics = c.get("generics", [])
        else:
            self.path = "<indirect:%s>" % term.get("func_ty", "?")
            self.resolved = None
            self.rkind = "indirect"
            self.trait = None
            self.name = None
            self.self_ty = None
            self.generics = []
        self.args = term["args"]
        self.dest = term["dest"]
        self.target = term.get("target")
        self.unwind = term.get("unwind")
        sp = term["span"]
        self.file = sp["file"]
        self.line = sp["line"]
        self.snip = sp.get("snip", "")
        self.exp = sp.get("exp", False)

    @property
    def best(self):
        """most precise callee path known"""
        return self.resolved or self.path

    def where(self):
        return "%s:%d" % (self.file, self.line)

    def const_arg(self, i):
        """constant behind argument i (directly, or through moves/refs of a constant-initialised temp)"""
        if i >= len(self.args):
            return None
        c = op_const(self.args[i])
        if c is not None:
            return c
        o = self.fn.origin(self.args[i], depth=6)
        while o[0] == "proj" and all(p == "deref" for p in o[2]):
            o = o[1]
        if o[0] == "const":
            return o[1]
        return None

    def arg_lit(self, i, P):
        """string literal behind argument i: a direct constant, or a literal compared by reference (a promoted constant of the body that owns
        the call — after helper look-through that is the helper, recorded as promoted_owner)"""
        s_ = self.arg_str(i)
        if s_ is not None:
            return s_
        k_ = self.const_arg(i)
        if k_ and "promoted" in k_:
            owner = k_.get("promoted_owner") or self.fn.id
            pb = P.fns.get("%s::{promoted#%d}" % (owner, k_["promoted"]))
            strs = pb.const_strs() if pb else []
            return strs[0] if len(set(strs)) == 1 else None
        return None

    def arg_str(self, i):
        """string-literal constant argument i, else None"""
        c = self.const_arg(i)
        if c and "str" in c:
            return c["str"]
        return None

    def __repr__(self):
        return "<Call %s @%s in %s bb%d>" % (self.best, self.where(), self.fn.id, self.bb)


class Fn:
    def __init__(self, d, crate):
        self.d = d
        self.crate = crate
        self.id = d["id"]
        self.kind = d["kind"]
        self.parent = d.get("parent")
        self.blocks = d["blocks"]
        self.locals = d["locals"]
        self.arg_count = d["arg_count"]
        self.file = d["span"]["file"]
        self.line = d["span"]["line"]
        self.eline = d["span"]["eline"]
        self.impl_trait = d.get("impl_trait")
        self.impl_self = d.get("impl_self")
        self.name = d.get("name")
        self.vis = d.get("vis")
        self.varnames = {}
        for v in d.get("vars", []):
            p = v["place"]
            if not p.get("p"):
                self.varnames.setdefault(p["l"], v["name"])
        self.var_places = d.get("vars", [])
        self._succ = None
        self._pred = None
        self._dom = None
        self._pdom = None
        self._cdep = None
        self._defs = None
        self._calls = None
        self._reach = None

    # ---------------------------------------------------------------- CFG
    def succ_edges(self, b):
        """normal (non-unwind) successors as (label, target)"""
        t = self.blocks[b]["term"]
        k = t["k"]
        if k == "goto":
            return [("goto", t["target"])]
        if k == "switch":
            out = [(str(v), tgt) for v, tgt in t["targets"]]
            out.append(("otherwise", t["otherwise"]))
            return out
        if k in ("call", "drop", "assert", "yield"):
            if t.get("target") is not None:
                return [("ret", t["target"])]
            return []
        return []

    @property
    def succ(self):
        if self._succ is None:
            self._succ = [[t for _, t in self.succ_edges(b)] for b in range(len(self.blocks))]
        return self._succ

    @property
    def pred(self):
        if self._pred is None:
            p = [[] for _ in self.blocks]
            for b, ss in enumerate(self.succ):
                for s in ss:
                    p[s].append(b)
            self._pred = p
        return self._pred

    @property
    def reach_blocks(self):
        """blocks reachable from bb0 over normal edges"""
        if self._reach is None:
            seen = {0}
            dq = deque([0])
            while dq:
                b = dq.popleft()
                for s in self.succ[b]:
                    if s not in seen:
                        seen.add(s)
                        dq.append(s)
            self._reach = seen
        return self._reach

    def _dominators(self, succ, pred, roots, n):
        """iterative dominator sets (small functions: sets are fine)"""
        allb = set(range(n))
        dom = {b: set(allb) for b in range(n)}
        for r in roots:
            dom[r] = {r}
        changed = True
        order = list(range(n))
        while changed:
            changed = False
            for b in order:
                if b in roots:
                    continue
                ps = [p for p in pred[b]]
                if not ps:
                    new = {b}
                else:
                    new = set.intersection(*(dom[p] for p in ps)) | {b}
                if new != dom[b]:
                    dom[b] = new
                    changed = True
        return dom

    @property
    def dom(self):
        """dom[b] = set of blocks dominating b (over blocks reachable by normal edges)"""
        if self._dom is None:
            n = len(self.blocks)
            reach = self.reach_blocks
            pred = [[p for p in self.pred[b] if p in reach] for b in range(n)]
            d = self._dominators(self.succ, pred, {0}, n)
            for b in range(n):
                if b not in reach:
                    d[b] = {b}
            self._dom = d
        return self._dom

    def dominates(self, a, b):
        return a in self.dom[b]

    @property
    def pdom(self):
        """post-dominators w.r.t. a virtual exit joined from every block without normal successors
        (return, diverging call, unreachable, resume)."""
        if self._pdom is None:
            n = len(self.blocks)
            EXIT = n
            succ = [list(s) for s in self.succ] + [[]]
            for b in range(n):
                if not succ[b]:
                    succ[b] = [EXIT]
            # reverse graph
            rpred = [[] for _ in range(n + 1)]  # preds in reversed graph = succs in original
            for b in range(n + 1):
                rpred[b] = succ[b]
            rsucc = [[] for _ in range(n + 1)]
            for b in range(n + 1):
                for s in succ[b]:
                    rsucc[s].append(b)
            d = self._dominators(rsucc, rpred, {EXIT}, n + 1)
            self._pdom = d
        return self._pdom

    @property
    def cdep(self):
        """cdep[b] = set of (a, label) such that b is control dependent on edge a --label-->.
        Ferrante/Ottenstein/Warren: for each edge a->s where s's post-dominators do not include
        ... b in pdom-chain(s) up to (not including) ipdom(a)."""
        if self._cdep is None:
            n = len(self.blocks)
            pd = self.pdom
            cd = defaultdict(set)
            for a in range(n):
                edges = self.succ_edges(a)
                if len(edges) < 2:
                    continue
                for label, s in edges:
                    # nodes that post-dominate s (incl. s) but do not strictly post-dominate a
                    for b in pd[s]:
                        if b == n:
                            continue
                        if b in pd[a] and b != a:
                            continue
                        cd[b].add((a, label))
            self._cdep = cd
        return self._cdep

    def control_conditions(self, b, transitive=True):
        """set of (block, label) conditions b depends on (transitively)."""
        out = set()
        work = [b]
        seen = set()
        while work:
            x = work.pop()
            for (a, label) in self.cdep.get(x, ()):
                if (a, label) not in out:
                    out.add((a, label))
                    if transitive and a not in seen:
                        seen.add(a)
                        work.append(a)
        return out

    # ---------------------------------------------------------------- defs
    @property
    def defs(self):
        """local -> list of ('stmt', bb, idx, rv) | ('call', bb, Call) | ('arg',)"""
        if self._defs is None:
            d = defaultdict(list)
            for l in range(1, self.arg_count + 1):
                d[l].append(("arg",))
            dup_seen = set()
            for b, blk in enumerate(self.blocks):
                for i, st in enumerate(blk["stmts"]):
                    if "lhs" in st and not st["lhs"].get("p"):
                        # copies of one statement made by jump threading are one definition
                        key = (blk.get("dup_of", b), i, st["lhs"]["l"])
                        if key in dup_seen:
                            continue
                        dup_seen.add(key)
                        d[st["lhs"]["l"]].append(("stmt", b, i, st["rv"]))
                t = blk["term"]
                if t["k"] == "call" and not t["dest"].get("p"):
                    d[t["dest"]["l"]].append(("call", b, Call(self, b, t)))
            self._defs = d
        return self._defs

    @property
    def calls(self):
        if self._calls is None:
            self._calls = [Call(self, b, blk["term"]) for b, blk in enumerate(self.blocks)
                           if blk["term"]["k"] == "call"]
        return self._calls

    def call_at(self, b):
        t = self.blocks[b]["term"]
        return Call(self, b, t) if t["k"] == "call" else None

    def lname(self, l):
        return self.varnames.get(l, "_%d" % l)

    # ---------------------------------------------------------------- origins
    def origin(self, op_or_place, depth=12, seen=None):
        """Trace a value to its origin.  Returns a tuple tree:
        ('const', c) | ('arg', n, proj) | ('call', Call, proj) | ('field', origin, adt, name) |
        ('aggr', rv) | ('bin', op, a, b) | ('var', name, [origins]) | ('discr', origin) | ('unknown',)
        Projections met on the way are kept in `proj` (list of field names / 'deref')."""
        if seen is None:
            seen = set()
        if isinstance(op_or_place, dict) and ("copy" in op_or_place or "move" in op_or_place or "const" in op_or_place):
            c = op_const(op_or_place)
            if c is not None:
                return ("const", c)
            place = op_place(op_or_place)
        else:
            place = op_or_place
        if place is None:
            return ("unknown",)
        l = place["l"]
        raw = place.get("p", [])
        base = self._origin_local(l, depth, seen)
        # a field read from a tuple that was just built (`match (a, b) { (Some(x), _) => .. }`) is the corresponding component
        while raw and base[0] == "aggr" and base[1].get("agg") == "tuple" and raw[0].get("k") == "field" and isinstance(raw[0].get("i"), int) \
                and raw[0]["i"] < len(base[1].get("ops", [])) and depth > 0:
            comp = base[1]["ops"][raw[0]["i"]]
            raw = raw[1:]
            depth -= 1
            base = self.origin(comp, depth, seen)
            if base[0] == "proj":
                # merge projections
                inner_base, inner_proj = base[1], list(base[2])
                if raw:
                    return ("proj", inner_base, inner_proj + [self._proj_str(p) for p in raw])
                return base
        # ... also when the tuple is built in several arms (`let (a, b) = match x { A => (1, p), B => (2, q) }`): the alternatives, component-wise
        if raw and base[0] == "multi" and raw[0].get("k") == "field" and isinstance(raw[0].get("i"), int) and depth > 0 and base[2] \
                and all(x[0] == "aggr" and x[1].get("agg") == "tuple" and raw[0]["i"] < len(x[1].get("ops", [])) for x in base[2]):
            i_ = raw[0]["i"]
            rest = raw[1:]
            alts = []
            for x in base[2]:
                comp = self.origin(x[1]["ops"][i_], depth - 1, seen)
                if rest:
                    comp = ("proj", comp, [self._proj_str(p) for p in rest]) if comp[0] != "proj" else ("proj", comp[1], list(comp[2]) + [self._proj_str(p) for p in rest])
                alts.append(comp)
            return ("multi", "%s.%d" % (base[1], i_), alts)
        proj = [self._proj_str(p) for p in raw]
        if proj:
            return ("proj", base, proj)
        return base

    @staticmethod
    def _read_locals(x, out=None):
        """base locals of every place read in a rvalue / operand / argument list (JSON facts)"""
        if out is None:
            out = set()
        if isinstance(x, dict):
            for k_ in ("copy", "move", "place"):
                v_ = x.get(k_)
                if isinstance(v_, dict) and isinstance(v_.get("l"), int):
                    out.add(v_["l"])
                    for p_ in v_.get("p", []):
                        if p_.get("k") == "index" and isinstance(p_.get("l"), int):
                            out.add(p_["l"])
            for k_, v_ in x.items():
                if k_ not in ("copy", "move", "place", "const", "span", "fn_span", "ty"):
                    Fn._read_locals(v_, out)
        elif isinstance(x, list):
            for v_ in x:
                Fn._read_locals(v_, out)
        return out

    def forward_taint(self, seed, barrier=None):
        """flow-insensitive forward data slice inside one body.  seed(place) -> bool marks the reads that start it (a place: {"l":.., "p":[..]}).
        A statement taints its destination when it reads a seed place or a tainted local; a call taints its destination when an argument is tainted,
        and — `v.push(x)`, `set.extend(xs)` — the local behind a `&mut` argument when another argument is.
        -> (tainted locals, [(Call, [indices of tainted arguments])])"""
        def seeded(x):
            if isinstance(x, dict):
                for k_ in ("copy", "move", "place"):
                    v_ = x.get(k_)
                    if isinstance(v_, dict) and isinstance(v_.get("l"), int) and seed(v_):
                        return True
                return any(seeded(v_) for k_, v_ in x.items() if k_ not in ("copy", "move", "place", "const", "span", "fn_span", "ty"))
            if isinstance(x, list):
                return any(seeded(v_) for v_ in x)
            return False
        T = set()
        mut_behind = {}         # local holding `&mut L` -> L
        for b in self.reach_blocks:
            for st in self.blocks[b]["stmts"]:
                rv = st.get("rv") or {}
                if st.get("lhs") and not st["lhs"].get("p") and rv.get("k") == "ref" and rv.get("mut"):
                    mut_behind[st["lhs"]["l"]] = rv["place"]["l"]
        changed = True
        rounds = 0
        while changed and rounds < 50:
            changed = False
            rounds += 1
            for b in sorted(self.reach_blocks):
                blk = self.blocks[b]
                for st in blk["stmts"]:
                    lhs, rv = st.get("lhs"), st.get("rv")
                    if lhs is None or rv is None:
                        continue
                    if lhs["l"] in T and not any(p_.get("k") == "deref" for p_ in lhs.get("p", [])):
                        continue
                    if seeded(rv) or (self._read_locals(rv) & T):
                        if lhs["l"] not in T:
                            T.add(lhs["l"])
                            changed = True
                        if any(p_.get("k") == "deref" for p_ in lhs.get("p", [])):
                            # a store through a pointer (`vec![x]` writes the array into a fresh box through a raw pointer): what the pointer was
                            # made from holds the value too
                            L, hops = lhs["l"], 0
                            while hops < 6:
                                ds = self.defs.get(L, [])
                                if len(ds) != 1 or ds[0][0] != "stmt" or ds[0][3].get("k") not in ("use", "cast", "ref", "copy_for_deref", "addr_of"):
                                    break
                                src = ds[0][3].get("op") or {"copy": ds[0][3].get("place")}
                                q = op_place(src) if isinstance(src, dict) and ("copy" in src or "move" in src) else None
                                if q is None:
                                    break
                                L = q["l"]
                                hops += 1
                                if L not in T:
                                    T.add(L)
                                    changed = True
                t = blk["term"]
                if t["k"] == "call":
                    hot = [i for i, a in enumerate(t["args"]) if seeded(a) or (self._read_locals(a) & T)]
                    if hot and barrier is not None and barrier(self.call_at(b)):
                        hot = []        # e.g. a cryptographic digest: what comes out says nothing about what went in
                    if hot:
                        d = t["dest"]["l"]
                        if d not in T:
                            T.add(d)
                            changed = True
                        for i, a in enumerate(t["args"]):
                            pl = op_place(a)
                            if i not in hot and pl is not None and not pl.get("p") and pl["l"] in mut_behind:
                                L = mut_behind[pl["l"]]
                                while L in mut_behind:      # reborrow chains
                                    L = mut_behind[L]
                                if L not in T:
                                    T.add(L)
                                    changed = True
        hits = []
        for c in self.calls:
            if c.bb in self.reach_blocks:
                hot = [i for i, a in enumerate(c.args) if seeded(a) or (self._read_locals(a) & T)]
                if hot:
                    hits.append((c, hot))
        return T, hits

    def feeding_calls(self, op, depth=5):
        """short names of every call in the backward data slice of a value: through copies, references, casts, aggregates (arrays, tuples, structs) and
        the arguments of the calls met on the way — `f(&[a.as_str(), b.as_str()])` is fed by whatever produced a and b, like `f(&a, &b)` is"""
        out = set()
        seen = set()

        def go(o, d):
            if d < 0:
                return
            t = o[0]
            if t == "proj":
                go(o[1], d)
            elif t == "call":
                k_ = (o[1].fn.id, o[1].bb)
                if k_ in seen:
                    return
                seen.add(k_)
                out.add(short_path(o[1].best))
                for a in o[1].args[:6]:
                    go(o[1].fn.origin(a), d - 1)
            elif t == "aggr":
                for a in o[1].get("ops", [])[:16]:
                    go(self.origin(a), d - 1)
            elif t == "multi":
                for x in o[2]:
                    go(x, d - 1)
            elif t in ("bin",):
                for x in o[2:4]:
                    if isinstance(x, tuple):
                        go(x, d - 1)
            elif t == "un":
                go(o[2], d - 1)
        go(self.origin(op), depth)
        return out

    @staticmethod
    def _proj_str(p):
        k = p["k"]
        if k == "field":
            return "%s.%s" % (p.get("adt", "?") + ("::" + p["variant"] if p.get("variant") else ""), p.get("name", p.get("i")))
        if k == "downcast":
            return "as:" + str(p.get("variant"))
        return k

    def _origin_local(self, l, depth, seen):
        if depth <= 0 or l in seen:
            return ("unknown",)
        seen = seen | {l}
        ds = self.defs.get(l, [])
        if not ds:
            return ("unknown",)
        if len(ds) > 1:
            outs = []
            for d in ds:
                outs.append(self._origin_def(d, l, depth - 1, seen))
            return ("multi", self.lname(l), outs)
        return self._origin_def(ds[0], l, depth - 1, seen)

    def _origin_def(self, d, l, depth, seen):
        if d[0] == "arg":
            return ("arg", l, self.lname(l))
        if d[0] == "call":
            return ("call", d[2])
        rv = d[3]
        k = rv["k"]
        if k == "use":
            return self.origin(rv["op"], depth, seen)
        if k in ("ref", "copy_for_deref", "rawptr"):
            return self.origin(rv["place"], depth, seen)
        if k == "cast":
            return self.origin(rv["op"], depth, seen)
        if k == "discr":
            return ("discr", self.origin(rv["place"], depth, seen), rv.get("variants", {}))
        if k == "bin":
            return ("bin", rv["op"], self.origin(rv["a"], depth, seen), self.origin(rv["b"], depth, seen))
        if k == "un":
            return ("un", rv["op"], self.origin(rv["a"], depth, seen))
        if k == "aggr":
            return ("aggr", rv)
        return ("unknown",)

    def describe_origin(self, o, short=True, deep=0):
        """canonical, position-free text for an origin tree"""
        t = o[0]
        if t == "const":
            c = o[1]
            if "str" in c:
                return json.dumps(c["str"], ensure_ascii=False)
            for k in ("int", "bool", "char", "bits"):
                if k in c:
                    return str(c[k]).lower() if k == "bool" else str(c[k])
            if "fn" in c:
                return "fn " + c["fn"]["path"]
            if "item" in c:
                return "item " + c["item"]
            return "const:" + c.get("ty", "?")
        if t == "arg":
            return "arg:" + o[2]
        if t == "call":
            c = o[1]
            name = short_path(c.best) if short else c.best
            if deep > 0 or strip_generics_(c.path) in TRANSPARENT:
                # transparent wrapper (or deep rendering): describe through the receiver/first argument
                f2 = c.fn
                inner = [f2.describe_origin(f2.origin(a), short, max(deep - 1, 0) if strip_generics_(c.path) not in TRANSPARENT else deep)
                         for a in c.args[:1 if strip_generics_(c.path) in TRANSPARENT else 4]]
                tag = TRANSPARENT.get(strip_generics_(c.path))
                if tag is not None:
                    return "%s(%s)" % (tag, ",".join(inner))
                return "call %s(%s)" % (name, ",".join(inner))
            args = []
            for i, a in enumerate(c.args):
                cc = c.const_arg(i)
                if cc is not None and ("str" in cc or "int" in cc or "char" in cc or "bool" in cc):
                    args.append(self.describe_origin(("const", cc)))
            return "call %s(%s)" % (name, ",".join(args))
        if t == "proj":
            return self.describe_origin(o[1], short, deep) + "".join("." + simplify_proj(p) for p in o[2])
        if t == "discr":
            return "discr(" + self.describe_origin(o[1], short, deep) + ")"
        if t == "bin":
            return "(%s %s %s)" % (self.describe_origin(o[2], short, deep), o[1], self.describe_origin(o[3], short, deep))
        if t == "un":
            return "%s(%s)" % (o[1], self.describe_origin(o[2], short))
        if t == "multi":
            return "var:" + o[1]
        if t == "aggr":
            rv = o[1]
            return "aggr:" + (rv.get("adt") or rv.get("agg"))
        return "?"

    def describe_cond(self, a, label):
        """canonical text of 'edge `label` of the switch/assert ending block a'."""
        t = self.blocks[a]["term"]
        if t["k"] == "switch":
            o = self.origin(t["discr"])
            txt = self.describe_origin(o)
            # translate numeric label for discriminants / bools
            if o[0] == "discr":
                variants = o[2]
                if label == "otherwise":
                    named = set(str(v) for v, _ in t["targets"])
                    rest = [n for k, n in variants.items() if k not in named]
                    lab = "|".join(sorted(rest)) if rest else "otherwise"
                else:
                    lab = variants.get(label, label)
                return "%s=%s" % (txt[6:-1], lab)  # strip discr( )
            ty = self._operand_ty(t["discr"])
            if ty == "bool":
                if label == "0":
                    lab = "false"
                elif label == "otherwise" and [v for v, _ in t["targets"]] == [0]:
                    lab = "true"
                elif label == "1":
                    lab = "true"
                elif label == "otherwise" and [v for v, _ in t["targets"]] == [1]:
                    lab = "false"
                else:
                    lab = label
                return "%s=%s" % (txt, lab)
            return "%s=%s" % (txt, label)
        return "blk%d:%s" % (a, label)

    def cond_struct(self, a, label):
        """structured form of a branch edge: (origin tree of the switched value, outcome label)
        where the outcome is the enum variant name, 'true'/'false', or the raw value."""
        t = self.blocks[a]["term"]
        if t["k"] != "switch":
            return (("unknown",), label)
        o = self.origin(t["discr"])
        if o[0] == "multi":
            o = self._reaching_origin(t["discr"], a) or o
        if o[0] == "discr":
            variants = o[2]
            if label == "otherwise":
                named = set(str(v) for v, _ in t["targets"])
                rest = [n for k, n in variants.items() if k not in named]
                lab = "|".join(sorted(rest)) if rest else "otherwise"
            else:
                lab = variants.get(label, label)
            return (o[1], lab)
        ty = self._operand_ty(t["discr"])
        lab = label
        if ty == "bool":
            vals = [v for v, _ in t["targets"]]
            if label == "0":
                lab = "false"
            elif label == "1":
                lab = "true"
            elif label == "otherwise" and vals == [0]:
                lab = "true"
            elif label == "otherwise" and vals == [1]:
                lab = "false"
        return (o, lab)

    def _reaching_origin(self, op, b):
        """origin of a multiply-defined local as seen at block b: only the definitions that can reach b without being overwritten count (after
        jump threading the constant definitions of a materialised bool no longer reach the original switch)"""
        pl = op_place(op)
        if pl is None or pl.get("p"):
            return None
        l = pl["l"]
        ds = self.defs.get(l, [])
        hops = 0
        while len(ds) == 1 and ds[0][0] == "stmt" and ds[0][3]["k"] == "use" and hops < 8:
            q = op_place(ds[0][3]["op"])
            if q is None or q.get("p"):
                return None
            l = q["l"]
            ds = self.defs.get(l, [])
            hops += 1
        if len(ds) < 2:
            return None
        def_blocks = {d[1] for d in ds if d[0] in ("stmt", "call")}
        reaching = []
        for d in ds:
            if d[0] == "arg":
                reaching.append(d)
                continue
            start = d[1]
            # a definition in b itself (before the terminator) reaches
            if start == b:
                reaching.append(d)
                continue
            seen = set()
            work = [y for y in self.succ[start]] if d[0] == "stmt" else ([d[2].target] if d[2].target is not None else [])
            hit = False
            while work and not hit:
                x = work.pop()
                if x in seen:
                    continue
                seen.add(x)
                if x == b:
                    hit = True
                    break
                if x in def_blocks and x != start:
                    continue        # overwritten there
                work.extend(self.succ[x])
            if hit:
                reaching.append(d)
        if len(reaching) == 1:
            return self._origin_def(reaching[0], l, 10, {l})
        return None

    def _operand_ty(self, op):
        p = op_place(op)
        if p is not None and not p.get("p"):
            return self.locals[p["l"]]
        if p is not None:
            for pj in reversed(p["p"]):
                if pj["k"] == "field" and "ty" in pj:
                    return pj["ty"]
                if pj["k"] not in ("downcast",):
                    break
        c = op_const(op)
        if c:
            return c.get("ty")
        return None

    def edge_dominators(self, b, _depth=0):
        """branch edges (a, label) that every entry->b path must take.  A branch on a bool temporary
        that is assigned constants in several arms (`matches!`, `&&`/`||` lowering) is seen through:
        the edges that dominate every assignment of the taken value are added."""
        base = self._edge_dominators_raw(b)
        if _depth >= 3:
            return base
        out = set(base)
        for (a, label) in base:
            t = self.blocks[a]["term"]
            if t["k"] != "switch":
                continue
            p = op_place(t["discr"])
            if p is None or p.get("p") or self.locals[p["l"]] != "bool":
                continue
            ds = [d for d in self.defs.get(p["l"], []) if d[0] == "stmt" and d[1] in self.reach_blocks]
            if len(ds) < 2:
                continue
            vals = [v for v, _ in t["targets"]]
            want = None
            if label == "0":
                want = False
            elif label == "1":
                want = True
            elif label == "otherwise" and vals == [0]:
                want = True
            elif label == "otherwise" and vals == [1]:
                want = False
            if want is None:
                continue
            blocks = []
            okc = True
            for d in ds:
                rv = d[3]
                k = op_const(rv["op"]) if rv["k"] == "use" else None
                if k is None or "bool" not in k:
                    okc = False
                    break
                if k["bool"] is want:
                    blocks.append(d[1])
            if not okc or not blocks:
                continue
            common = None
            for db in blocks:
                e = self.edge_dominators(db, _depth + 1)
                common = e if common is None else (common & e)
            out |= (common or set())
        return out

    def _edge_dominators_raw(self, b):
        out = set()
        n = len(self.blocks)
        for a in self.dom[b]:
            edges = self.succ_edges(a)
            if len(edges) < 2:
                continue
            # group labels by target: an edge is identified by (a, label)
            for label, s in edges:
                # remove this edge; is b still reachable?
                seen = {0}
                dq = deque([0])
                found = (b == 0)
                while dq and not found:
                    x = dq.popleft()
                    for (lab2, y) in self.succ_edges(x):
                        if x == a and lab2 == label:
                            continue
                        if y not in seen:
                            if y == b:
                                found = True
                                break
                            seen.add(y)
                            dq.append(y)
                if not found:
                    out.add((a, label))
        return out

    def filter_branches(self, start, effect, stops=()):
        """Branch blocks between `start` and `effect` that can divert control away from `effect`:
        switch blocks reachable from start (not through `stops`) from which effect is reachable, having at
        least one outgoing edge from which effect is no longer reachable (without passing `stops`).
        Catches disjunctive filters (`a || b`) that no single dominating edge reveals.
        -> list of (block, [labels that keep effect reachable], [labels that lose it])"""
        stops = set(stops)

        def reach_from(b0):
            seen = {b0}
            dq = deque([b0])
            while dq:
                x = dq.popleft()
                if x in stops and x != b0:
                    continue
                for y in self.succ[x]:
                    if y not in seen:
                        seen.add(y)
                        dq.append(y)
            return seen
        fwd = reach_from(start)
        out = []
        cache = {}
        for b in sorted(fwd):
            t = self.blocks[b]["term"]
            if t["k"] != "switch":
                continue
            if b in stops and b != start:
                continue
            keep, lose = [], []
            for lab, s_ in self.succ_edges(b):
                if self.blocks[s_]["term"]["k"] == "unreachable" and not self.blocks[s_]["stmts"]:
                    continue  # exhaustive-match filler edge
                if s_ not in cache:
                    cache[s_] = effect in reach_from(s_) or s_ == effect
                (keep if cache[s_] else lose).append(lab)
            if keep and lose:
                out.append((b, keep, lose))
        return out

    def _natural_loops(self):
        """[(header, body)] for every back edge u -> h (h dominates u): h plus the blocks that reach u without passing through h"""
        if getattr(self, "_nl", None) is not None:
            return self._nl
        n = len(self.succ)
        pred = [[] for _ in range(n)]
        for u in range(n):
            for v in self.succ[u]:
                pred[v].append(u)
        loops = {}
        for u in range(n):
            for h in self.succ[u]:
                if h not in self.dom[u]:
                    continue
                body = loops.setdefault(h, {h})
                work = []
                if u not in body:
                    body.add(u)
                    work.append(u)
                while work:
                    x = work.pop()
                    for y in pred[x]:
                        if y not in body:
                            body.add(y)
                            work.append(y)
        self._nl = sorted(loops.items())
        return self._nl

    def enclosing_loop_heads(self, b):
        """blocks of the Iterator::next calls that drive a loop around b: the call dominates b and b lies in the innermost natural loop that
        contains the call (a block after an inner loop is not inside it, although the inner `next` dominates it and is reached again through
        the outer loop)"""
        heads = []
        for c in self.calls:
            if c.name == "next" and c.bb in self.dom[b] and c.bb != b:
                own = [body for (h, body) in self._natural_loops() if c.bb in body]
                if not own:
                    continue
                inner = min(own, key=len)
                if b in inner:
                    heads.append(c.bb)
        return heads

    def natural_loop_heads(self, b):
        """headers of the natural loops that contain b (any loop form, not only iterator loops)"""
        return sorted(h for (h, body) in self._natural_loops() if b in body)

    def filters_in_iteration(self, effect):
        """filter_branches restricted to one iteration of the innermost loop around `effect` (or the whole body if none)"""
        heads = self.enclosing_loop_heads(effect)
        if not heads:
            return self.filter_branches(0, effect)
        # innermost = the head dominated by all other heads
        inner = max(heads, key=lambda h: len(self.dom[h]))
        start = self.blocks[inner]["term"].get("target")
        return self.filter_branches(start if start is not None else inner, effect, stops=heads)

    def edge_region(self, a, label):
        """blocks that can only run after branch edge (a, label) was taken"""
        seen = {0}
        dq = deque([0])
        while dq:
            x = dq.popleft()
            for (lab2, y) in self.succ_edges(x):
                if x == a and lab2 == label:
                    continue
                if y not in seen:
                    seen.add(y)
                    dq.append(y)
        return self.reach_blocks - seen

    def branch_edges(self):
        """all (block, label, cond_struct) of switch terminators"""
        out = []
        for b in sorted(self.reach_blocks):
            t = self.blocks[b]["term"]
            if t["k"] == "switch":
                for lab, _ in self.succ_edges(b):
                    out.append((b, lab, self.cond_struct(b, lab)))
        return out

    def must_conditions(self, b, sequencing=True):
        """canonical texts of the branch outcomes that necessarily hold when block b runs.  sequencing=False leaves out the success edges of
        earlier `?` steps: they say that b comes after a fallible step, not that anything guards it"""
        out = set()
        for a, lab in self.edge_dominators(b):
            if not sequencing:
                o, outcome = self.cond_struct(a, lab)
                if o[0] == "call" and strip_generics_(o[1].path) == "std::ops::Try::branch" and outcome == "Continue":
                    continue
            out.add(self.describe_cond(a, lab))
        return sorted(out)

    def conditions_text(self, b):
        return sorted(set(self.describe_cond(a, lab) for a, lab in self.control_conditions(b)))

    def const_strs(self):
        """all string constants mentioned in this body (operands of statements and call arguments)"""
        out = []

        def vis(op):
            c = op_const(op)
            if c and "str" in c:
                out.append(c["str"])
        for blk in self.blocks:
            for st in blk["stmts"]:
                rv = st.get("rv")
                if not rv:
                    continue
                for key in ("op", "a", "b"):
                    if key in rv and isinstance(rv[key], dict):
                        vis(rv[key])
                for o in rv.get("ops", []):
                    vis(o)
            t = blk["term"]
            if t["k"] == "call":
                for a in t["args"]:
                    vis(a)
        return out

    # operands referencing functions/closures anywhere (for call-graph over-approximation)
    def fn_refs(self):
        out = []

        def visit_op(op):
            c = op_const(op)
            if c:
                if "fn" in c:
                    out.append(("fn", c["fn"]))
                elif "closure" in c:
                    out.append(("closure", c["closure"]))

        for blk in self.blocks:
            for st in blk["stmts"]:
                rv = st.get("rv")
                if not rv:
                    continue
                for key in ("op", "a", "b"):
                    if key in rv and isinstance(rv[key], dict):
                        visit_op(rv[key])
                if rv["k"] == "aggr":
                    if rv.get("agg") in ("closure", "coroutine", "coroutine_closure"):
                        out.append(("closure", rv["closure"]))
                    for o in rv["ops"]:
                        visit_op(o)
            t = blk["term"]
            if t["k"] == "call":
                for a in t["args"]:
                    visit_op(a)
        return out


TRANSPARENT = {
    "std::ops::Try::branch": "try",
    "std::ops::Deref::deref": "deref",
    "std::ops::DerefMut::deref_mut": "deref",
    "std::convert::AsRef::as_ref": "asref",
    "std::borrow::Borrow::borrow": "asref",
    "std::clone::Clone::clone": "clone",
    "std::option::Option::<T>::as_ref": "asref",
    "std::option::Option::<T>::as_deref": "asref",
    "std::string::String::as_str": "asref",
    "std::convert::Into::into": "into",
    "std::convert::From::from": "into",
    "std::string::ToString::to_string": "tostring",
    "std::borrow::ToOwned::to_owned": "clone",
    "std::path::Path::new": "path",
    "std::path::PathBuf::as_path": "asref",
    "std::option::Option::<T>::take": "take",       # the value that was there (`if let Some(p) = options.config_file.take()`)
}


def strip_generics_(p):
    out = []
    depth = 0
    i = 0
    while i < len(p):
        if p.startswith("::<", i) and depth == 0:
            j = i + 3
            d = 1
            while j < len(p) and d:
                if p[j] == "<":
                    d += 1
                elif p[j] == ">":
                    d -= 1
                j += 1
            # keep `Option::<T>`-style generic markers: they are part of declared paths
            out.append(p[i:j])
            i = j
            continue
        out.append(p[i])
        i += 1
    return "".join(out)


def simplify_proj(p):
    # 'crate::mod::Type.field' -> 'Type.field'
    if "." in p:
        adt, name = p.rsplit(".", 1)
        return short_path(adt) + "." + name
    return p


def _drop_turbofish(p):
    """remove `::<...>` groups (balanced)"""
    out = []
    i = 0
    while i < len(p):
        if p.startswith("::<", i):
            j = i + 3
            d = 1
            while j < len(p) and d:
                if p[j] == "<":
                    d += 1
                elif p[j] == ">" and p[j - 1] != "-":
                    d -= 1
                j += 1
            i = j
            continue
        out.append(p[i])
        i += 1
    return "".join(out)


def short_path(p):
    """drop module qualifiers: keep the last two path components, generics removed;
    `core::str::<impl str>::find` -> `str::find`; `<T as Trait>::m` kept as is."""
    q = _drop_turbofish(p)
    m = re.match(r"^[A-Za-z_0-9]+(?:::[A-Za-z_0-9]+)*::<impl ([^>]+)>::(\w+)$", q)
    if m:
        return "%s::%s" % (m.group(1), m.group(2))
    if q.startswith("<"):
        return q
    parts = q.split("::")
    return "::".join(parts[-2:]) if len(parts) >= 2 else q


# ---------------------------------------------------------------------------------------------------------------- helper look-through
# Rules are anchored on the functions of the pinned tree.  A later clean-up may move part of such a function into a new private helper; the
# property then has to be decided on the caller *with* that helper, not on whichever half happens to keep the old name.  Calls to crate functions
# that did not exist at the pinned commit (tables/pinned_functions.json) are therefore spliced into their callers before any rule runs (real
# MIR inlining on the fact level: renumbered locals and blocks, arguments assigned to the callee's parameter locals, `return` turned into an
# assignment of the destination plus a goto).  The helper itself stays in the program as well.
INLINE_DEPTH = 4
INLINE_MAX_BLOCKS = 4000


def _remap_place(p, lo):
    q = dict(p)
    q["l"] = p["l"] + lo
    if p.get("p"):
        q["p"] = [({**pj, "l": pj["l"] + lo} if pj.get("k") == "index" and "l" in pj else pj) for pj in p["p"]]
    return q


def _remap_operand(o, lo, owner):
    if not isinstance(o, dict):
        return o
    if "copy" in o:
        return {"copy": _remap_place(o["copy"], lo)}
    if "move" in o:
        return {"move": _remap_place(o["move"], lo)}
    if "const" in o and isinstance(o["const"], dict) and "promoted" in o["const"] and "promoted_owner" not in o["const"]:
        c = dict(o["const"])
        c["promoted_owner"] = owner
        return {"const": c}
    return o


def _remap_rvalue(rv, lo, owner):
    out = {}
    for k, v in rv.items():
        if k in ("op", "a", "b"):
            out[k] = _remap_operand(v, lo, owner)
        elif k == "ops":
            out[k] = [_remap_operand(x, lo, owner) for x in v]
        elif k == "place":
            out[k] = _remap_place(v, lo)
        else:
            out[k] = v
    return out


def _remap_block(blk, lo, bo, owner):
    nb = {"stmts": [], "inl": owner}
    if blk.get("cleanup"):
        nb["cleanup"] = True
    for st in blk["stmts"]:
        ns = dict(st)
        if "lhs" in st:
            ns["lhs"] = _remap_place(st["lhs"], lo)
        if "rv" in st:
            ns["rv"] = _remap_rvalue(st["rv"], lo, owner)
        if "setdiscr" in st:
            ns["setdiscr"] = _remap_place(st["setdiscr"], lo)
        nb["stmts"].append(ns)
    t = dict(blk["term"])
    for key in ("target", "unwind", "otherwise"):
        if key in t and isinstance(t[key], int):
            t[key] = t[key] + bo
    if "targets" in t:
        t["targets"] = [[v, b + bo] for v, b in t["targets"]]
    for key in ("discr", "func", "cond", "len", "index", "a", "b"):
        if key in t and isinstance(t[key], dict):
            t[key] = _remap_operand(t[key], lo, owner)
    if "args" in t:
        t["args"] = [_remap_operand(a, lo, owner) for a in t["args"]]
    for key in ("dest", "place"):
        if key in t and isinstance(t[key], dict):
            t[key] = _remap_place(t[key], lo)
    nb["term"] = t
    return nb


def inline_helpers(raw, should_inline):
    """raw: {fn id: fact dict}.  Returns {fn id: fact dict with helper calls spliced in} for the functions that changed."""
    changed = {}
    for fid, d in raw.items():
        blocks = None
        stacks = None
        i = 0
        n_inl = 0
        src_blocks = d["blocks"]
        while i < len(blocks if blocks is not None else src_blocks):
            cur = blocks if blocks is not None else src_blocks
            blk = cur[i]
            t = blk["term"]
            if t["k"] == "call" and "const" in t.get("func", {}):
                fnc = t["func"]["const"].get("fn") or {}
                res = fnc.get("resolved") if fnc.get("rkind") not in ("unresolved", "error", None, "virtual") else None
                stack = stacks[i] if stacks is not None else ()
                if res and res in raw and res != fid and res not in stack and should_inline(res) and len(stack) < INLINE_DEPTH \
                        and len(cur) + len(raw[res]["blocks"]) < INLINE_MAX_BLOCKS and "target" in t and not t["dest"].get("p"):
                    if blocks is None:
                        blocks = [dict(b) for b in src_blocks]
                        stacks = [() for _ in blocks]
                        locals_ = list(d["locals"])
                        vars_ = list(d.get("vars", []))
                        blk = blocks[i]
                    g = raw[res]
                    lo = len(locals_)
                    bo = len(blocks)
                    locals_.extend(g["locals"])
                    for v in g.get("vars", []):
                        vars_.append({**v, "place": _remap_place(v["place"], lo)})
                    for gb in g["blocks"]:
                        nb = _remap_block(gb, lo, bo, res)
                        tk = nb["term"]["k"]
                        if tk == "return":
                            nb["stmts"].append({"lhs": dict(t["dest"]), "rv": {"k": "use", "op": {"move": {"l": lo, "p": []}}}, "line": t.get("span", {}).get("line", 0)})
                            nb["term"] = {"k": "goto", "target": t["target"], "span": nb["term"].get("span", {})}
                        elif tk == "resume" and "unwind" in t:
                            nb["term"] = {"k": "goto", "target": t["unwind"], "span": nb["term"].get("span", {})}
                        blocks.append(nb)
                        stacks.append(stack + (res,))
                    pre = list(blk["stmts"])
                    for k_, a in enumerate(t["args"]):
                        pre.append({"lhs": {"l": lo + 1 + k_, "p": []}, "rv": {"k": "use", "op": a}, "line": t.get("span", {}).get("line", 0)})
                    blocks[i] = {**blk, "stmts": pre, "term": {"k": "goto", "target": bo, "span": t.get("span", {}), "inlined_call": res}}
                    n_inl += 1
            i += 1
        if blocks is not None:
            nd = dict(d)
            nd["blocks"] = blocks
            nd["locals"] = locals_
            nd["vars"] = vars_
            nd["inlined"] = n_inl
            changed[fid] = nd
    return changed



# ---------------------------------------------------------------------------------------------------------------- bool jump threading
# `matches!(x, A | B)`, `let ok = a && b; if ok {..}` and a spliced-in helper that returns bool all *materialise* a decision as a bool local that
# is assigned constants on several paths and switched on later.  Rules read branch conditions, so that indirection hides which test decided.
# As rustc's own JumpThreading pass does (it is off at mir-opt-level=0), the tail from a constant assignment to the switch is duplicated with the
# switch resolved: the conditions that led to `true` then lead straight to the true target.
THREAD_MAX_REGION = 40


def _succs_of(t, n):
    k = t["k"]
    outs = []
    if k in ("goto", "drop", "assert", "call", "yield"):
        if "target" in t:
            outs.append(t["target"])
    elif k == "switch":
        outs.extend(x[1] for x in t["targets"])
        outs.append(t["otherwise"])
    return [o for o in outs if o < n]


def _derived_unit_eq(g):
    """variants map when g is the body `#[derive(PartialEq)]` gives a field-less enum (compare the two discriminants, nothing else), else None"""
    if not g or g.get("arg_count") != 2 or len(g.get("blocks", [])) != 1 or g["blocks"][0]["term"]["k"] != "return":
        return None
    discr, bins = [], []
    for st in g["blocks"][0]["stmts"]:
        rv = st.get("rv") or {}
        k = rv.get("k")
        if k == "discr":
            discr.append(rv)
        elif k == "bin":
            bins.append(st)
        elif k not in ("ref", "use", "copy_for_deref", None):
            return None
    if len(discr) == 2 and len(bins) == 1 and bins[0]["rv"]["op"] == "Eq" and bins[0]["lhs"]["l"] == 0 and discr[0].get("variants") \
            and discr[0].get("ty") == discr[1].get("ty"):
        return discr[0]["variants"]
    return None


def rewrite_unit_enum_eq(raw):
    """`x == Enum::V` on a field-less enum with a derived PartialEq is a call of the derived `eq` with a promoted `&Enum::V`; rewritten to what
    `matches!(x, Enum::V)` compiles to (a switch on x's discriminant that assigns true / false), so that both spellings are one shape and the
    jump threading below can resolve it when x was assigned a known variant on the way"""
    eqs = {}
    for fid, g in raw.items():
        if fid.endswith("as std::cmp::PartialEq>::eq"):
            v = _derived_unit_eq(g)
            if v:
                eqs[fid[1:].split(" as ")[0]] = v
    if not eqs:
        return
    for fid, d in raw.items():
        blocks = d["blocks"]
        for bi in range(len(blocks)):
            blk = blocks[bi]
            t = blk["term"]
            if t["k"] != "call" or blk.get("cleanup") or t.get("target") is None or t["dest"].get("p"):
                continue
            fn_ = ((t.get("func") or {}).get("const") or {}).get("fn") or {}
            if fn_.get("trait") != "std::cmp::PartialEq" or fn_.get("name") not in ("eq", "ne") or fn_.get("self_ty") not in eqs or len(t["args"]) != 2:
                continue
            if fn_.get("generics") and len(set(fn_["generics"])) != 1:
                continue
            variants = eqs[fn_["self_ty"]]

            def single_def(l):
                found = None
                for st in blk["stmts"]:
                    if st.get("lhs") and st["lhs"]["l"] == l and not st["lhs"].get("p"):
                        found = st.get("rv")
                return found

            def const_variant(op):
                pl = op.get("copy") or op.get("move")
                if not pl or pl.get("p"):
                    return None
                rv = single_def(pl["l"])
                if not rv or rv.get("k") != "ref":
                    return None
                src = rv["place"]
                if [p_.get("k") for p_ in src.get("p", [])] == ["deref"]:
                    rv2 = single_def(src["l"])
                    c = (rv2 or {}).get("op", {}).get("const") if (rv2 or {}).get("k") == "use" else None
                    if c and "promoted" in c:
                        pg = raw.get("%s::{promoted#%s}" % (c.get("promoted_owner") or c.get("item"), c["promoted"]))
                        if pg and len(pg["blocks"]) == 1:
                            for st in pg["blocks"][0]["stmts"]:
                                rv3 = st.get("rv") or {}
                                if rv3.get("k") == "aggr" and rv3.get("variant") and not rv3.get("ops"):
                                    return rv3["variant"]
                elif not src.get("p"):
                    rv2 = single_def(src["l"])
                    if rv2 and rv2.get("k") == "aggr" and rv2.get("variant") and not rv2.get("ops"):
                        return rv2["variant"]
                return None

            def subject_place(op):
                pl = op.get("copy") or op.get("move")
                if not pl or pl.get("p"):
                    return None
                rv = single_def(pl["l"])
                if rv and rv.get("k") == "ref" and not rv["place"].get("p"):
                    return {"l": rv["place"]["l"]}
                return {"l": pl["l"], "p": [{"k": "deref"}]}
            v0, v1 = const_variant(t["args"][0]), const_variant(t["args"][1])
            if (v0 is None) == (v1 is None):
                continue
            var = v0 if v0 is not None else v1
            subj = subject_place(t["args"][1] if v0 is not None else t["args"][0])
            idx = [k_ for k_, nm in variants.items() if nm == var]
            if subj is None or len(idx) != 1:
                continue
            n_loc = len(d["locals"])
            d["locals"].append("isize")
            hit, miss = (True, False) if fn_["name"] == "eq" else (False, True)
            b_hit, b_miss = len(blocks), len(blocks) + 1
            for val in (hit, miss):
                blocks.append({"stmts": [{"lhs": {"l": t["dest"]["l"]}, "rv": {"k": "use", "op": {"const": {"ty": "bool", "bool": val}}}, "line": (t.get("span") or {}).get("line")}],
                               "term": {"k": "goto", "target": t["target"], "span": t.get("span", {})}, "enum_eq": True, **({"inl": blk["inl"]} if blk.get("inl") else {})})
            blk["stmts"] = blk["stmts"] + [{"lhs": {"l": n_loc}, "rv": {"k": "discr", "place": subj, "ty": fn_["self_ty"], "variants": variants}, "line": (t.get("span") or {}).get("line")}]
            blk["term"] = {"k": "switch", "discr": {"move": {"l": n_loc}}, "targets": [[int(idx[0]), b_hit]], "otherwise": b_miss, "span": t.get("span", {}), "enum_eq": fn_["name"]}


def thread_bool_switches(d):
    """jump threading for switches on a bool local or on the discriminant of an enum local whose value is a known constant / variant on some of
    the incoming paths: the region between the assignment and the switch is duplicated for that path with the switch resolved"""
    blocks = d["blocks"]
    locals_ = d["locals"]
    changed = False
    budget = 24
    done = set()            # (switch block, source block) pairs already threaded
    while budget > 0:
        budget -= 1
        n = len(blocks)
        preds = [[] for _ in range(n)]
        for i, b in enumerate(blocks):
            for o in _succs_of(b["term"], n):
                preds[o].append(i)
        did = False
        for s_i in range(n):
            S = blocks[s_i]
            t = S["term"]
            if t["k"] != "switch" or S.get("cleanup"):
                continue
            pl = t["discr"].get("copy") or t["discr"].get("move")
            if not pl or pl.get("p"):
                continue
            variants = None
            enum_mode = False
            entry_local = pl["l"]
            prefix = S["stmts"]
            if locals_[pl["l"]] != "bool":
                found_d = None
                for si in range(len(S["stmts"]) - 1, -1, -1):
                    st = S["stmts"][si]
                    if st.get("lhs", {}).get("l") == pl["l"] and not st["lhs"].get("p"):
                        rv = st.get("rv") or {}
                        if rv.get("k") == "discr" and not rv["place"].get("p") and rv.get("variants"):
                            found_d = (si, rv)
                        break
                if not found_d:
                    continue
                enum_mode = True
                variants = found_d[1]["variants"]
                entry_local = found_d[1]["place"]["l"]
                prefix = S["stmts"][:found_d[0]]

            def target_for(val):
                if not enum_mode:
                    want = 1 if val else 0
                    for v, tgt in t["targets"]:
                        if int(v) == want:
                            return tgt
                    return t["otherwise"]
                vals = [k_ for k_, nm in variants.items() if nm == val]
                if len(vals) != 1:
                    return None
                for v, tgt in t["targets"]:
                    if str(v) == str(vals[0]):
                        return tgt
                return t["otherwise"]

            def const_of(st):
                """value a statement assigns as a whole-local constant: bool / variant name, else None"""
                rv = st.get("rv") or {}
                if "lhs" not in st or st["lhs"].get("p"):
                    return None
                if not enum_mode and rv.get("k") == "use":
                    c = rv["op"].get("const")
                    if c is not None and "bool" in c:
                        return ("v", bool(c["bool"]))
                if enum_mode and rv.get("k") == "aggr" and rv.get("variant") and rv.get("agg") != "closure":
                    return ("v", rv["variant"])
                return None

            def transfer(stmts, state, term=None):
                """forward: state = {local: value} known to hold a constant"""
                state = dict(state)
                for st in stmts:
                    if "setdiscr" in st:
                        state.pop(st["setdiscr"]["l"], None)
                        continue
                    lhs = st.get("lhs")
                    if lhs is None:
                        continue
                    if lhs.get("p"):
                        state.pop(lhs["l"], None)
                        continue
                    c = const_of(st)
                    rv = st.get("rv") or {}
                    if c is not None:
                        state[lhs["l"]] = c[1]
                    elif rv.get("k") == "use":
                        q = rv["op"].get("copy") or rv["op"].get("move")
                        if q and not q.get("p") and q["l"] in state:
                            state[lhs["l"]] = state[q["l"]]
                        else:
                            state.pop(lhs["l"], None)
                    else:
                        if rv.get("k") == "ref" and rv.get("mut") and not rv["place"].get("p"):
                            state.pop(rv["place"]["l"], None)
                        state.pop(lhs["l"], None)
                if term is not None and term["k"] == "call" and not term["dest"].get("p"):
                    state.pop(term["dest"]["l"], None)
                return state
            # constant already known inside S itself
            st0 = transfer(prefix, {})
            if entry_local in st0:
                tg = target_for(st0[entry_local])
                if tg is not None:
                    S["term"] = {"k": "goto", "target": tg, "span": t.get("span", {}), "threaded": True}
                    did = True
                    break
                continue
            # backward region
            region = {s_i}
            order = [s_i]
            qi = 0
            while qi < len(order) and len(region) <= THREAD_MAX_REGION:
                x = order[qi]
                qi += 1
                for p_ in preds[x]:
                    if p_ not in region and not blocks[p_].get("cleanup"):
                        region.add(p_)
                        order.append(p_)
            if len(region) > THREAD_MAX_REGION:
                region = set(order[:THREAD_MAX_REGION])
            sources = []
            for q in region:
                if q == s_i or (s_i, q) in done:
                    continue
                if any(const_of(st) is not None for st in blocks[q]["stmts"]):
                    sources.append(q)
            for q in sorted(sources):
                Q = blocks[q]
                out_q = transfer(Q["stmts"], {}, Q["term"])
                if not out_q:
                    continue
                # forward must-dataflow from q's successors up to S, inside the region
                sub = set()
                work = [x for x in _succs_of(Q["term"], n)]
                while work:
                    x = work.pop()
                    if x in sub or x == s_i:
                        continue
                    if x not in region:
                        continue
                    sub.add(x)
                    work.extend(_succs_of(blocks[x]["term"], n))
                if q in sub:
                    continue          # q lies on a cycle through the region: leave it
                # keep only blocks that reach S
                reach_s = {s_i}
                grew = True
                while grew:
                    grew = False
                    for x in sub:
                        if x not in reach_s and any(y in reach_s for y in _succs_of(blocks[x]["term"], n)):
                            reach_s.add(x)
                            grew = True
                sub = {x for x in sub if x in reach_s}
                # only control-only blocks are duplicated (goto / drop / switch): a duplicated call or assert would show up as a second call site
                if any(blocks[x]["term"]["k"] not in ("goto", "drop", "switch") for x in sub):
                    continue
                if not any(y in sub or y == s_i for y in _succs_of(Q["term"], n)):
                    continue
                # entries into sub from outside other than q invalidate nothing (they keep using the originals); dataflow only over q-paths
                IN = {}
                wl = []
                for y in _succs_of(Q["term"], n):
                    if y in sub or y == s_i:
                        IN[y] = dict(out_q)
                        wl.append(y)
                it = 0
                while wl and it < 400:
                    it += 1
                    x = wl.pop()
                    if x == s_i:
                        continue
                    out_x = transfer(blocks[x]["stmts"], IN[x], blocks[x]["term"])
                    for y in _succs_of(blocks[x]["term"], n):
                        if y in sub or y == s_i:
                            if y not in IN:
                                IN[y] = dict(out_x)
                                wl.append(y)
                            else:
                                merged = {k_: v_ for k_, v_ in IN[y].items() if out_x.get(k_) == v_}
                                if merged != IN[y]:
                                    IN[y] = merged
                                    wl.append(y)
                if s_i not in IN:
                    continue
                at_s = transfer(prefix, IN[s_i])
                if entry_local not in at_s:
                    continue
                tg = target_for(at_s[entry_local])
                if tg is None:
                    continue
                # duplicate sub ∪ {S}
                new_idx = {}
                for b_i in sorted(sub | {s_i}):
                    new_idx[b_i] = len(blocks)
                    nb = json.loads(json.dumps(blocks[b_i]))
                    nb["dup_of"] = blocks[b_i].get("dup_of", b_i)
                    blocks.append(nb)
                for b_i, ni in new_idx.items():
                    nb = blocks[ni]
                    if b_i == s_i:
                        nb["term"] = {"k": "goto", "target": tg, "span": t.get("span", {}), "threaded": True}
                        continue
                    tt = nb["term"]
                    if "target" in tt and tt["target"] in new_idx:
                        tt["target"] = new_idx[tt["target"]]
                    if tt["k"] == "switch":
                        tt["targets"] = [[v, new_idx.get(b2, b2)] for v, b2 in tt["targets"]]
                        tt["otherwise"] = new_idx.get(tt["otherwise"], tt["otherwise"])
                qt = dict(Q["term"])
                if "target" in qt and qt["target"] in new_idx:
                    qt["target"] = new_idx[qt["target"]]
                if qt["k"] == "switch":
                    qt["targets"] = [[v, new_idx.get(b2, b2)] for v, b2 in qt["targets"]]
                    qt["otherwise"] = new_idx.get(qt["otherwise"], qt["otherwise"])
                Q["term"] = qt
                done.add((s_i, q))
                for ni in new_idx.values():
                    done.add((ni, q))
                did = True
                break
            if did:
                break
        if not did:
            break
        changed = True
    return changed


_PINNED = [False, None]


def _pinned_functions():
    if _PINNED[0] is False:
        p = os.path.join(os.path.dirname(os.path.dirname(os.path.abspath(__file__))), "tables", "pinned_functions.json")
        try:
            with open(p) as fh:
                _PINNED[1] = set(json.load(fh))
        except (OSError, ValueError):
            _PINNED[1] = None
        _PINNED[0] = True
    return _PINNED[1]


class Program:
    def __init__(self, facts_dir):
        self.fns = {}
        self.adts = {}
        self.impls = []
        self.traits = {}
        self.crates = {}
        for fn in sorted(os.listdir(facts_dir)):
            if not (fn.startswith("mir-") and fn.endswith(".json")):
                continue
            with open(os.path.join(facts_dir, fn)) as fh:
                d = json.load(fh)
            crate = d["crate"]
            self.crates[crate] = {"n_bodies": d["n_bodies"], "file": fn}
            raw = {f["id"]: f for f in d["fns"]}
            pinned = _pinned_functions()
            if pinned is not None and not os.environ.get("TTV_NO_INLINE"):
                def new_helper(fid, _pin=pinned):
                    base = fid.split("::{closure")[0]
                    return "{" not in fid and base not in _pin and not fid.startswith("<")
                self.inlined = getattr(self, "inlined", {})
                for fid, nd in inline_helpers(raw, new_helper).items():
                    raw[fid] = nd
                    self.inlined[fid] = nd["inlined"]
            if not os.environ.get("TTV_NO_THREAD"):
                try:
                    rewrite_unit_enum_eq(raw)
                except (KeyError, IndexError, TypeError):
                    pass
                for f in raw.values():
                    try:
                        thread_bool_switches(f)
                    except (KeyError, IndexError, TypeError):
                        pass
            for f in raw.values():
                self.fns[f["id"]] = Fn(f, crate)
            for a in d["adts"]:
                self.adts[a["path"]] = a
            for im in d["impls"]:
                im["crate"] = crate
                self.impls.append(im)
            for t in d["traits"]:
                self.traits[t["path"]] = t
        # trait method path -> [impl method paths]
        self.trait_impls = defaultdict(list)
        for im in self.impls:
            for it in im["items"]:
                if it.get("trait_item"):
                    self.trait_impls[it["trait_item"]].append(it["path"])
        self._cg = None
        self._rcg = None

    ADAPTERS = ("map", "filter_map", "for_each", "flat_map", "filter", "fold", "try_for_each", "inspect", "and_then", "then", "map_or", "map_or_else", "is_some_and", "any", "all", "find", "find_map")

    def find_call_sites(self, fid, pred):
        """calls satisfying pred in function fid, in the closures written inside it and in the helpers spliced into it:
        -> list of (Fn that holds the call, Call)"""
        out = []
        spliced = {b.get("inl") for b in self.fns[fid].d.get("blocks", []) if b.get("inl")} if fid in self.fns else set()
        for k in self.family(fid):
            g = self.fns[k]
            if "{promoted" in k or k in spliced:
                continue        # a spliced helper's own calls are present in the caller's copy
            for c in g.calls:
                if c.bb in g.reach_blocks and pred(c):
                    out.append((g, c))
        return out

    def iteration_sources(self, fid, g, call, depth=4):
        """what a call site is repeated over, whether the repetition is a `for` loop or an iterator adapter that was handed the closure holding
        the call: list of canonical origin texts (innermost first) of the iterated collections / adapter receivers up to function fid"""
        out = []
        for h in g.enclosing_loop_heads(call.bb):
            hc = g.call_at(h)
            if hc is not None and hc.args:
                out.append(g.describe_origin(g.origin(hc.args[0]), deep=depth))
        cur = g
        guard = 0
        while cur.id != fid and "::{closure" in cur.id and guard < 6:
            guard += 1
            parent_id = cur.id.rsplit("::{closure", 1)[0]
            cands = [parent_id] + [k for k in self.fns if fid in self.fns and parent_id in [b.get("inl") for b in self.fns[k].d.get("blocks", [])]]
            found = False
            for pid in cands:
                par = self.fns.get(pid)
                if par is None:
                    continue
                for c in par.calls:
                    if not c.args or c.bb not in par.reach_blocks:
                        continue
                    for a in c.args[1:]:
                        o = par.origin(a)
                        cid = o[1].get("closure") if o[0] in ("aggr", "const") and isinstance(o[1], dict) else None
                        if cid == cur.id:
                            out.append(par.describe_origin(par.origin(c.args[0]), deep=depth))
                            for h in par.enclosing_loop_heads(c.bb):
                                hc = par.call_at(h)
                                if hc is not None and hc.args:
                                    out.append(par.describe_origin(par.origin(hc.args[0]), deep=depth))
                            cur = par
                            found = True
                            break
                    if found:
                        break
                if found:
                    break
            if not found:
                break
        return out

    def value_slice(self, f, op, depth=10, _stack=()):
        """backward data slice of a value across crate functions: -> (short names of the calls met, parameter numbers of f met).
        A call to a crate function is followed only through the parameters that feed *its* result (its own slice), so a combiner that ignores one of
        its inputs does not count as carrying it; calls into other crates are assumed to use all their arguments."""
        calls, params = set(), set()
        seen = set()

        def go(g, o, d):
            if d < 0:
                return
            t = o[0]
            if t == "proj":
                go(g, o[1], d)
            elif t == "arg":
                params.add(o[1])
            elif t == "call":
                c = o[1]
                k_ = (c.fn.id, c.bb)
                if k_ in seen:
                    return
                seen.add(k_)
                calls.add(short_path(c.best))
                use = None
                if c.best in self.fns and c.best not in _stack and len(_stack) < 4:
                    use = self.result_params(c.best, _stack + (c.best,))
                for i, a in enumerate(c.args[:8]):
                    if use is None or (i + 1) in use:
                        go(c.fn, c.fn.origin(a), d - 1)
            elif t == "aggr":
                for a in o[1].get("ops", [])[:16]:
                    go(g, g.origin(a), d - 1)
            elif t == "multi":
                for x in o[2]:
                    go(g, x, d - 1)
            elif t == "bin":
                for x in o[2:4]:
                    if isinstance(x, tuple):
                        go(g, x, d - 1)
            elif t == "un":
                go(g, o[2], d - 1)
        go(f, f.origin(op), depth)
        return calls, params

    def result_params(self, fid, _stack=()):
        """parameter numbers (1-based) of a crate function that feed its result"""
        memo = self.__dict__.setdefault("_result_params", {})
        if fid in memo:
            return memo[fid]
        h = self.fns[fid]
        _, ps = self.value_slice(h, {"l": 0}, 10, _stack)
        # an `&mut` parameter written through is an output, not modelled here: keep every parameter then
        if not ps or any("&mut" in h.locals[i] for i in range(1, h.arg_count + 1)):
            ps = set(range(1, h.arg_count + 1))
        memo[fid] = ps
        return ps

    def family(self, fid):
        """the bodies that make up function fid for a rule that reads "everything written inside it": the function, its closures and promoted
        constants, and the same for every helper that was spliced into it"""
        roots = [fid]
        d = self.fns[fid].d if fid in self.fns else {}
        for b in d.get("blocks", []):
            r = b.get("inl")
            if r and r not in roots:
                roots.append(r)
        out = []
        for k in self.fns:
            if any(k == r or k.startswith(r + "::{") for r in roots):
                out.append(k)
        return out

    # ------------------------------------------------------------ call graph
    def targets(self, call):
        """Local bodies a call may enter (over-approximate)."""
        out = []
        if call.callee is None:
            return out
        res = call.resolved
        if res and res in self.fns:
            out.append(res)
            return out
        p = call.path
        if res is None or call.rkind in ("virtual", "unresolved"):
            # trait-dispatched: all impls + default body
            if p in self.trait_impls or p in self.fns:
                out.extend(t for t in self.trait_impls.get(p, []) if t in self.fns)
                if p in self.fns:
                    out.append(p)
        if res and res not in self.fns and p in self.fns and not out:
            out.append(p)
        return out

    @property
    def callgraph(self):
        if self._cg is None:
            cg = defaultdict(set)
            for f in self.fns.values():
                if "{promoted#" in f.id:
                    continue
                for c in f.calls:
                    for t in self.targets(c):
                        cg[f.id].add(t)
                for kind, ref in f.fn_refs():
                    if kind == "closure":
                        if ref in self.fns:
                            cg[f.id].add(ref)
                    else:
                        fake = type("X", (), {})()
                        res = ref.get("resolved") if ref.get("rkind") not in ("unresolved", "error", None) else None
                        if res and res in self.fns:
                            cg[f.id].add(res)
                        else:
                            p = ref["path"]
                            for t in self.trait_impls.get(p, []):
                                if t in self.fns:
                                    cg[f.id].add(t)
                            if p in self.fns:
                                cg[f.id].add(p)
                # closures defined inside are reachable when the parent is (aggregate creates them;
                # also covers closures only mentioned in generics)
            for f in self.fns.values():
                if f.kind == "Closure" and f.parent and f.parent in self.fns:
                    cg[f.parent].add(f.id)
            self._cg = cg
        return self._cg

    @property
    def rcallgraph(self):
        if self._rcg is None:
            r = defaultdict(set)
            for a, bs in self.callgraph.items():
                for b in bs:
                    r[b].add(a)
            self._rcg = r
        return self._rcg

    def reachable(self, entries):
        seen = set()
        dq = deque(e for e in entries if e in self.fns)
        seen.update(dq)
        while dq:
            x = dq.popleft()
            for y in self.callgraph.get(x, ()):
                if y not in seen:
                    seen.add(y)
                    dq.append(y)
        return seen

    def reaches(self, src, pred, memo=None):
        """does fn `src` (transitively) contain a call satisfying pred(Call)?  memoised DFS."""
        if memo is None:
            memo = {}
        if src in memo:
            return memo[src]
        memo[src] = False
        f = self.fns.get(src)
        res = False
        if f:
            for c in f.calls:
                if pred(c):
                    res = True
                    break
            if not res:
                for t in self.callgraph.get(src, ()):
                    if self.reaches(t, pred, memo):
                        res = True
                        break
        memo[src] = res
        return res

    def path_to(self, entries, goal_fn):
        """one call path entry -> goal fn (list of fn ids) for diagnostics"""
        prev = {}
        dq = deque(e for e in entries if e in self.fns)
        for e in dq:
            prev[e] = None
        while dq:
            x = dq.popleft()
            if x == goal_fn:
                out = []
                while x is not None:
                    out.append(x)
                    x = prev[x]
                return list(reversed(out))
            for y in sorted(self.callgraph.get(x, ())):
                if y not in prev:
                    prev[y] = x
                    dq.append(y)
        return None

    def fn(self, fid):
        return self.fns.get(fid)

    def find(self, suffix, _hops=0):
        """functions whose id ends with ::suffix (or equals it).  A function of the pinned tree that no longer exists and had a single caller there
        is looked for in that caller (its body was folded into it): tables/pinned_callers.json"""
        hit = [f for k, f in self.fns.items() if k == suffix or k.endswith("::" + suffix)]
        if hit or _hops >= 3 or "{" in suffix:
            return hit
        try:
            import srclib as _sl
            table = _sl._pinned_callers()
        except Exception:  # noqa
            table = {}
        for fid, callers in table.items():
            if (fid == suffix or fid.endswith("::" + suffix)) and len(callers) == 1:
                self.relocated = getattr(self, "relocated", {})
                self.relocated[suffix] = callers[0]
                return self.find(callers[0], _hops + 1)
        return hit

"""mirlib — Python view of the MIR facts written by engines/mirfacts.

Per function: CFG (normal edges; unwind edges kept apart), dominators, post-dominators,
control dependence with edge labels, def sites of locals, value-origin tracing.
Whole program: call graph (direct, trait-dispatched to all impls, closure/fn-item references),
reachability from entry points.

Nothing here executes repository code: it only reads the fact files.
"""
import json
import os
import re
from collections import defaultdict, deque

LIB = "tauri_typegen"
BIN = "cargo_tauri_typegen"

ENTRY_POINTS = [
    "cargo_tauri_typegen::main",
    "tauri_typegen::interface::generate_from_config",
    "tauri_typegen::build::BuildSystem::generate_at_build_time",
]


def place_local(p):
    return p["l"]


def place_proj(p):
    return p.get("p", [])


def op_place(op):
    """place of a copy/move operand, else None"""
    if op is None:
        return None
    return op.get("copy") or op.get("move")


def op_const(op):
    return op.get("const") if op else None


def const_fn(op):
    c = op_const(op)
    if c:
        return c.get("fn")
    return None


class Call:
    """A call terminator."""
    __slots__ = ("fn", "bb", "term", "callee", "path", "resolved", "rkind", "trait", "name",
                 "self_ty", "generics", "args", "dest", "target", "unwind", "file", "line",
                 "snip", "exp")

    def __init__(self, fn, bb, term):
        self.fn = fn
        self.bb = bb
        self.term = term
        c = const_fn(term["func"])
        self.callee = c
        if c:
            self.path = c["path"]
            self.resolved = c.get("resolved") if c.get("rkind") not in ("unresolved", "error", None) else None
            self.rkind = c.get("rkind")
            self.trait = c.get("trait")
            self.name = c.get("name")
            self.self_ty = c.get("self_ty")
            self.generics = c.get("generics", [])
        else:
            self.path = "<indirect:%s>" % term.get("func_ty", "?")
            self.resolved = None
            self.rkind = "indirect"
            self.trait = None
            self.name = None
            self.self_ty = None
            self.generics = []
        self.args = term["args"]
        self.dest = term["dest"]
        self.target = term.get("target")
        self.unwind = term.get("unwind")
        sp = term["span"]
        self.file = sp["file"]
        self.line = sp["line"]
        self.snip = sp.get("snip", "")
        self.exp = sp.get("exp", False)

    @property
    def best(self):
        """most precise callee path known"""
        return self.resolved or self.path

    def where(self):
        return "%s:%d" % (self.file, self.line)

    def const_arg(self, i):
        """constant behind argument i (directly, or through moves/refs of a constant-initialised temp)"""
        if i >= len(self.args):
            return None
        c = op_const(self.args[i])
        if c is not None:
            return c
        o = self.fn.origin(self.args[i], depth=6)
        while o[0] == "proj" and all(p == "deref" for p in o[2]):
            o = o[1]
        if o[0] == "const":
            return o[1]
        return None

    def arg_str(self, i):
        """string-literal constant argument i, else None"""
        c = self.const_arg(i)
        if c and "str" in c:
            return c["str"]
        return None

    def __repr__(self):
        return "<Call %s @%s in %s bb%d>" % (self.best, self.where(), self.fn.id, self.bb)


class Fn:
    def __init__(self, d, crate):
        self.d = d
        self.crate = crate
        self.id = d["id"]
        self.kind = d["kind"]
        self.parent = d.get("parent")
        self.blocks = d["blocks"]
        self.locals = d["locals"]
        self.arg_count = d["arg_count"]
        self.file = d["span"]["file"]
        self.line = d["span"]["line"]
        self.eline = d["span"]["eline"]
        self.impl_trait = d.get("impl_trait")
        self.impl_self = d.get("impl_self")
        self.name = d.get("name")
        self.vis = d.get("vis")
        self.varnames = {}
        for v in d.get("vars", []):
            p = v["place"]
            if not p.get("p"):
                self.varnames.setdefault(p["l"], v["name"])
        self.var_places = d.get("vars", [])
        self._succ = None
        self._pred = None
        self._dom = None
        self._pdom = None
        self._cdep = None
        self._defs = None
        self._calls = None
        self._reach = None

    # ---------------------------------------------------------------- CFG
    def succ_edges(self, b):
        """normal (non-unwind) successors as (label, target)"""
        t = self.blocks[b]["term"]
        k = t["k"]
        if k == "goto":
            return [("goto", t["target"])]
        if k == "switch":
            out = [(str(v), tgt) for v, tgt in t["targets"]]
            out.append(("otherwise", t["otherwise"]))
            return out
        if k in ("call", "drop", "assert", "yield"):
            if t.get("target") is not None:
                return [("ret", t["target"])]
            return []
        return []

    @property
    def succ(self):
        if self._succ is None:
            self._succ = [[t for _, t in self.succ_edges(b)] for b in range(len(self.blocks))]
        return self._succ

    @property
    def pred(self):
        if self._pred is None:
            p = [[] for _ in self.blocks]
            for b, ss in enumerate(self.succ):
                for s in ss:
                    p[s].append(b)
            self._pred = p
        return self._pred

    @property
    def reach_blocks(self):
        """blocks reachable from bb0 over normal edges"""
        if self._reach is None:
            seen = {0}
            dq = deque([0])
            while dq:
                b = dq.popleft()
                for s in self.succ[b]:
                    if s not in seen:
                        seen.add(s)
                        dq.append(s)
            self._reach = seen
        return self._reach

    def _dominators(self, succ, pred, roots, n):
        """iterative dominator sets (small functions: sets are fine)"""
        allb = set(range(n))
        dom = {b: set(allb) for b in range(n)}
        for r in roots:
            dom[r] = {r}
        changed = True
        order = list(range(n))
        while changed:
            changed = False
            for b in order:
                if b in roots:
                    continue
                ps = [p for p in pred[b]]
                if not ps:
                    new = {b}
                else:
                    new = set.intersection(*(dom[p] for p in ps)) | {b}
                if new != dom[b]:
                    dom[b] = new
                    changed = True
        return dom

    @property
    def dom(self):
        """dom[b] = set of blocks dominating b (over blocks reachable by normal edges)"""
        if self._dom is None:
            n = len(self.blocks)
            reach = self.reach_blocks
            pred = [[p for p in self.pred[b] if p in reach] for b in range(n)]
            d = self._dominators(self.succ, pred, {0}, n)
            for b in range(n):
                if b not in reach:
                    d[b] = {b}
            self._dom = d
        return self._dom

    def dominates(self, a, b):
        return a in self.dom[b]

    @property
    def pdom(self):
        """post-dominators w.r.t. a virtual exit joined from every block without normal successors
        (return, diverging call, unreachable, resume)."""
        if self._pdom is None:
            n = len(self.blocks)
            EXIT = n
            succ = [list(s) for s in self.succ] + [[]]
            for b in range(n):
                if not succ[b]:
                    succ[b] = [EXIT]
            # reverse graph
            rpred = [[] for _ in range(n + 1)]  # preds in reversed graph = succs in original
            for b in range(n + 1):
                rpred[b] = succ[b]
            rsucc = [[] for _ in range(n + 1)]
            for b in range(n + 1):
                for s in succ[b]:
                    rsucc[s].append(b)
            d = self._dominators(rsucc, rpred, {EXIT}, n + 1)
            self._pdom = d
        return self._pdom

    @property
    def cdep(self):
        """cdep[b] = set of (a, label) such that b is control dependent on edge a --label-->.
        Ferrante/Ottenstein/Warren: for each edge a->s where s's post-dominators do not include
        ... b in pdom-chain(s) up to (not including) ipdom(a)."""
        if self._cdep is None:
            n = len(self.blocks)
            pd = self.pdom
            cd = defaultdict(set)
            for a in range(n):
                edges = self.succ_edges(a)
                if len(edges) < 2:
                    continue
                for label, s in edges:
                    # nodes that post-dominate s (incl. s) but do not strictly post-dominate a
                    for b in pd[s]:
                        if b == n:
                            continue
                        if b in pd[a] and b != a:
                            continue
                        cd[b].add((a, label))
            self._cdep = cd
        return self._cdep

    def control_conditions(self, b, transitive=True):
        """set of (block, label) conditions b depends on (transitively)."""
        out = set()
        work = [b]
        seen = set()
        while work:
            x = work.pop()
            for (a, label) in self.cdep.get(x, ()):
                if (a, label) not in out:
                    out.add((a, label))
                    if transitive and a not in seen:
                        seen.add(a)
                        work.append(a)
        return out

    # ---------------------------------------------------------------- defs
    @property
    def defs(self):
        """local -> list of ('stmt', bb, idx, rv) | ('call', bb, Call) | ('arg',)"""
        if self._defs is None:
            d = defaultdict(list)
            for l in range(1, self.arg_count + 1):
                d[l].append(("arg",))
            for b, blk in enumerate(self.blocks):
                for i, st in enumerate(blk["stmts"]):
                    if "lhs" in st and not st["lhs"].get("p"):
                        d[st["lhs"]["l"]].append(("stmt", b, i, st["rv"]))
                t = blk["term"]
                if t["k"] == "call" and not t["dest"].get("p"):
                    d[t["dest"]["l"]].append(("call", b, Call(self, b, t)))
            self._defs = d
        return self._defs

    @property
    def calls(self):
        if self._calls is None:
            self._calls = [Call(self, b, blk["term"]) for b, blk in enumerate(self.blocks)
                           if blk["term"]["k"] == "call"]
        return self._calls

    def call_at(self, b):
        t = self.blocks[b]["term"]
        return Call(self, b, t) if t["k"] == "call" else None

    def lname(self, l):
        return self.varnames.get(l, "_%d" % l)

    # ---------------------------------------------------------------- origins
    def origin(self, op_or_place, depth=12, seen=None):
        """Trace a value to its origin.  Returns a tuple tree:
        ('const', c) | ('arg', n, proj) | ('call', Call, proj) | ('field', origin, adt, name) |
        ('aggr', rv) | ('bin', op, a, b) | ('var', name, [origins]) | ('discr', origin) | ('unknown',)
        Projections met on the way are kept in `proj` (list of field names / 'deref')."""
        if seen is None:
            seen = set()
        if isinstance(op_or_place, dict) and ("copy" in op_or_place or "move" in op_or_place or "const" in op_or_place):
            c = op_const(op_or_place)
            if c is not None:
                return ("const", c)
            place = op_place(op_or_place)
        else:
            place = op_or_place
        if place is None:
            return ("unknown",)
        l = place["l"]
        proj = [self._proj_str(p) for p in place.get("p", [])]
        base = self._origin_local(l, depth, seen)
        if proj:
            return ("proj", base, proj)
        return base

    @staticmethod
    def _proj_str(p):
        k = p["k"]
        if k == "field":
            return "%s.%s" % (p.get("adt", "?") + ("::" + p["variant"] if p.get("variant") else ""), p.get("name", p.get("i")))
        if k == "downcast":
            return "as:" + str(p.get("variant"))
        return k

    def _origin_local(self, l, depth, seen):
        if depth <= 0 or l in seen:
            return ("unknown",)
        seen = seen | {l}
        ds = self.defs.get(l, [])
        if not ds:
            return ("unknown",)
        if len(ds) > 1:
            outs = []
            for d in ds:
                outs.append(self._origin_def(d, l, depth - 1, seen))
            return ("multi", self.lname(l), outs)
        return self._origin_def(ds[0], l, depth - 1, seen)

    def _origin_def(self, d, l, depth, seen):
        if d[0] == "arg":
            return ("arg", l, self.lname(l))
        if d[0] == "call":
            return ("call", d[2])
        rv = d[3]
        k = rv["k"]
        if k == "use":
            return self.origin(rv["op"], depth, seen)
        if k in ("ref", "copy_for_deref", "rawptr"):
            return self.origin(rv["place"], depth, seen)
        if k == "cast":
            return self.origin(rv["op"], depth, seen)
        if k == "discr":
            return ("discr", self.origin(rv["place"], depth, seen), rv.get("variants", {}))
        if k == "bin":
            return ("bin", rv["op"], self.origin(rv["a"], depth, seen), self.origin(rv["b"], depth, seen))
        if k == "un":
            return ("un", rv["op"], self.origin(rv["a"], depth, seen))
        if k == "aggr":
            return ("aggr", rv)
        return ("unknown",)

    def describe_origin(self, o, short=True, deep=0):
        """canonical, position-free text for an origin tree"""
        t = o[0]
        if t == "const":
            c = o[1]
            if "str" in c:
                return json.dumps(c["str"], ensure_ascii=False)
            for k in ("int", "bool", "char", "bits"):
                if k in c:
                    return str(c[k]).lower() if k == "bool" else str(c[k])
            if "fn" in c:
                return "fn " + c["fn"]["path"]
            if "item" in c:
                return "item " + c["item"]
            return "const:" + c.get("ty", "?")
        if t == "arg":
            return "arg:" + o[2]
        if t == "call":
            c = o[1]
            name = short_path(c.best) if short else c.best
            if deep > 0 or strip_generics_(c.path) in TRANSPARENT:
                # transparent wrapper (or deep rendering): describe through the receiver/first argument
                f2 = c.fn
                inner = [f2.describe_origin(f2.origin(a), short, max(deep - 1, 0) if strip_generics_(c.path) not in TRANSPARENT else deep)
                         for a in c.args[:1 if strip_generics_(c.path) in TRANSPARENT else 4]]
                tag = TRANSPARENT.get(strip_generics_(c.path))
                if tag is not None:
                    return "%s(%s)" % (tag, ",".join(inner))
                return "call %s(%s)" % (name, ",".join(inner))
            args = []
            for i, a in enumerate(c.args):
                cc = c.const_arg(i)
                if cc is not None and ("str" in cc or "int" in cc or "char" in cc or "bool" in cc):
                    args.append(self.describe_origin(("const", cc)))
            return "call %s(%s)" % (name, ",".join(args))
        if t == "proj":
            return self.describe_origin(o[1], short, deep) + "".join("." + simplify_proj(p) for p in o[2])
        if t == "discr":
            return "discr(" + self.describe_origin(o[1], short, deep) + ")"
        if t == "bin":
            return "(%s %s %s)" % (self.describe_origin(o[2], short, deep), o[1], self.describe_origin(o[3], short, deep))
        if t == "un":
            return "%s(%s)" % (o[1], self.describe_origin(o[2], short))
        if t == "multi":
            return "var:" + o[1]
        if t == "aggr":
            rv = o[1]
            return "aggr:" + (rv.get("adt") or rv.get("agg"))
        return "?"

    def describe_cond(self, a, label):
        """canonical text of 'edge `label` of the switch/assert ending block a'."""
        t = self.blocks[a]["term"]
        if t["k"] == "switch":
            o = self.origin(t["discr"])
            txt = self.describe_origin(o)
            # translate numeric label for discriminants / bools
            if o[0] == "discr":
                variants = o[2]
                if label == "otherwise":
                    named = set(str(v) for v, _ in t["targets"])
                    rest = [n for k, n in variants.items() if k not in named]
                    lab = "|".join(sorted(rest)) if rest else "otherwise"
                else:
                    lab = variants.get(label, label)
                return "%s=%s" % (txt[6:-1], lab)  # strip discr( )
            ty = self._operand_ty(t["discr"])
            if ty == "bool":
                if label == "0":
                    lab = "false"
                elif label == "otherwise" and [v for v, _ in t["targets"]] == [0]:
                    lab = "true"
                elif label == "1":
                    lab = "true"
                elif label == "otherwise" and [v for v, _ in t["targets"]] == [1]:
                    lab = "false"
                else:
                    lab = label
                return "%s=%s" % (txt, lab)
            return "%s=%s" % (txt, label)
        return "blk%d:%s" % (a, label)

    def cond_struct(self, a, label):
        """structured form of a branch edge: (origin tree of the switched value, outcome label)
        where the outcome is the enum variant name, 'true'/'false', or the raw value."""
        t = self.blocks[a]["term"]
        if t["k"] != "switch":
            return (("unknown",), label)
        o = self.origin(t["discr"])
        if o[0] == "discr":
            variants = o[2]
            if label == "otherwise":
                named = set(str(v) for v, _ in t["targets"])
                rest = [n for k, n in variants.items() if k not in named]
                lab = "|".join(sorted(rest)) if rest else "otherwise"
            else:
                lab = variants.get(label, label)
            return (o[1], lab)
        ty = self._operand_ty(t["discr"])
        lab = label
        if ty == "bool":
            vals = [v for v, _ in t["targets"]]
            if label == "0":
                lab = "false"
            elif label == "1":
                lab = "true"
            elif label == "otherwise" and vals == [0]:
                lab = "true"
            elif label == "otherwise" and vals == [1]:
                lab = "false"
        return (o, lab)

    def _operand_ty(self, op):
        p = op_place(op)
        if p is not None and not p.get("p"):
            return self.locals[p["l"]]
        if p is not None:
            for pj in reversed(p["p"]):
                if pj["k"] == "field" and "ty" in pj:
                    return pj["ty"]
                if pj["k"] not in ("downcast",):
                    break
        c = op_const(op)
        if c:
            return c.get("ty")
        return None

    def edge_dominators(self, b, _depth=0):
        """branch edges (a, label) that every entry->b path must take.  A branch on a bool temporary
        that is assigned constants in several arms (`matches!`, `&&`/`||` lowering) is seen through:
        the edges that dominate every assignment of the taken value are added."""
        base = self._edge_dominators_raw(b)
        if _depth >= 3:
            return base
        out = set(base)
        for (a, label) in base:
            t = self.blocks[a]["term"]
            if t["k"] != "switch":
                continue
            p = op_place(t["discr"])
            if p is None or p.get("p") or self.locals[p["l"]] != "bool":
                continue
            ds = [d for d in self.defs.get(p["l"], []) if d[0] == "stmt" and d[1] in self.reach_blocks]
            if len(ds) < 2:
                continue
            vals = [v for v, _ in t["targets"]]
            want = None
            if label == "0":
                want = False
            elif label == "1":
                want = True
            elif label == "otherwise" and vals == [0]:
                want = True
            elif label == "otherwise" and vals == [1]:
                want = False
            if want is None:
                continue
            blocks = []
            okc = True
            for d in ds:
                rv = d[3]
                k = op_const(rv["op"]) if rv["k"] == "use" else None
                if k is None or "bool" not in k:
                    okc = False
                    break
                if k["bool"] is want:
                    blocks.append(d[1])
            if not okc or not blocks:
                continue
            common = None
            for db in blocks:
                e = self.edge_dominators(db, _depth + 1)
                common = e if common is None else (common & e)
            out |= (common or set())
        return out

    def _edge_dominators_raw(self, b):
        out = set()
        n = len(self.blocks)
        for a in self.dom[b]:
            edges = self.succ_edges(a)
            if len(edges) < 2:
                continue
            # group labels by target: an edge is identified by (a, label)
            for label, s in edges:
                # remove this edge; is b still reachable?
                seen = {0}
                dq = deque([0])
                found = (b == 0)
                while dq and not found:
                    x = dq.popleft()
                    for (lab2, y) in self.succ_edges(x):
                        if x == a and lab2 == label:
                            continue
                        if y not in seen:
                            if y == b:
                                found = True
                                break
                            seen.add(y)
                            dq.append(y)
                if not found:
                    out.add((a, label))
        return out

    def filter_branches(self, start, effect, stops=()):
        """Branch blocks between `start` and `effect` that can divert control away from `effect`:
        switch blocks reachable from start (not through `stops`) from which effect is reachable, having at
        least one outgoing edge from which effect is no longer reachable (without passing `stops`).
        Catches disjunctive filters (`a || b`) that no single dominating edge reveals.
        -> list of (block, [labels that keep effect reachable], [labels that lose it])"""
        stops = set(stops)

        def reach_from(b0):
            seen = {b0}
            dq = deque([b0])
            while dq:
                x = dq.popleft()
                if x in stops and x != b0:
                    continue
                for y in self.succ[x]:
                    if y not in seen:
                        seen.add(y)
                        dq.append(y)
            return seen
        fwd = reach_from(start)
        out = []
        cache = {}
        for b in sorted(fwd):
            t = self.blocks[b]["term"]
            if t["k"] != "switch":
                continue
            if b in stops and b != start:
                continue
            keep, lose = [], []
            for lab, s_ in self.succ_edges(b):
                if self.blocks[s_]["term"]["k"] == "unreachable" and not self.blocks[s_]["stmts"]:
                    continue  # exhaustive-match filler edge
                if s_ not in cache:
                    cache[s_] = effect in reach_from(s_) or s_ == effect
                (keep if cache[s_] else lose).append(lab)
            if keep and lose:
                out.append((b, keep, lose))
        return out

    def _natural_loops(self):
        """[(header, body)] for every back edge u -> h (h dominates u): h plus the blocks that reach u without passing through h"""
        if getattr(self, "_nl", None) is not None:
            return self._nl
        n = len(self.succ)
        pred = [[] for _ in range(n)]
        for u in range(n):
            for v in self.succ[u]:
                pred[v].append(u)
        loops = {}
        for u in range(n):
            for h in self.succ[u]:
                if h not in self.dom[u]:
                    continue
                body = loops.setdefault(h, {h})
                work = []
                if u not in body:
                    body.add(u)
                    work.append(u)
                while work:
                    x = work.pop()
                    for y in pred[x]:
                        if y not in body:
                            body.add(y)
                            work.append(y)
        self._nl = sorted(loops.items())
        return self._nl

    def enclosing_loop_heads(self, b):
        """blocks of the Iterator::next calls that drive a loop around b: the call dominates b and b lies in the innermost natural loop that
        contains the call (a block after an inner loop is not inside it, although the inner `next` dominates it and is reached again through
        the outer loop)"""
        heads = []
        for c in self.calls:
            if c.name == "next" and c.bb in self.dom[b] and c.bb != b:
                own = [body for (h, body) in self._natural_loops() if c.bb in body]
                if not own:
                    continue
                inner = min(own, key=len)
                if b in inner:
                    heads.append(c.bb)
        return heads

    def natural_loop_heads(self, b):
        """headers of the natural loops that contain b (any loop form, not only iterator loops)"""
        return sorted(h for (h, body) in self._natural_loops() if b in body)

    def filters_in_iteration(self, effect):
        """filter_branches restricted to one iteration of the innermost loop around `effect` (or the whole body if none)"""
        heads = self.enclosing_loop_heads(effect)
        if not heads:
            return self.filter_branches(0, effect)
        # innermost = the head dominated by all other heads
        inner = max(heads, key=lambda h: len(self.dom[h]))
        start = self.blocks[inner]["term"].get("target")
        return self.filter_branches(start if start is not None else inner, effect, stops=heads)

    def edge_region(self, a, label):
        """blocks that can only run after branch edge (a, label) was taken"""
        seen = {0}
        dq = deque([0])
        while dq:
            x = dq.popleft()
            for (lab2, y) in self.succ_edges(x):
                if x == a and lab2 == label:
                    continue
                if y not in seen:
                    seen.add(y)
                    dq.append(y)
        return self.reach_blocks - seen

    def branch_edges(self):
        """all (block, label, cond_struct) of switch terminators"""
        out = []
        for b in sorted(self.reach_blocks):
            t = self.blocks[b]["term"]
            if t["k"] == "switch":
                for lab, _ in self.succ_edges(b):
                    out.append((b, lab, self.cond_struct(b, lab)))
        return out

    def must_conditions(self, b):
        """canonical texts of the branch outcomes that necessarily hold when block b runs"""
        return sorted(set(self.describe_cond(a, lab) for a, lab in self.edge_dominators(b)))

    def conditions_text(self, b):
        return sorted(set(self.describe_cond(a, lab) for a, lab in self.control_conditions(b)))

    def const_strs(self):
        """all string constants mentioned in this body (operands of statements and call arguments)"""
        out = []

        def vis(op):
            c = op_const(op)
            if c and "str" in c:
                out.append(c["str"])
        for blk in self.blocks:
            for st in blk["stmts"]:
                rv = st.get("rv")
                if not rv:
                    continue
                for key in ("op", "a", "b"):
                    if key in rv and isinstance(rv[key], dict):
                        vis(rv[key])
                for o in rv.get("ops", []):
                    vis(o)
            t = blk["term"]
            if t["k"] == "call":
                for a in t["args"]:
                    vis(a)
        return out

    # operands referencing functions/closures anywhere (for call-graph over-approximation)
    def fn_refs(self):
        out = []

        def visit_op(op):
            c = op_const(op)
            if c:
                if "fn" in c:
                    out.append(("fn", c["fn"]))
                elif "closure" in c:
                    out.append(("closure", c["closure"]))

        for blk in self.blocks:
            for st in blk["stmts"]:
                rv = st.get("rv")
                if not rv:
                    continue
                for key in ("op", "a", "b"):
                    if key in rv and isinstance(rv[key], dict):
                        visit_op(rv[key])
                if rv["k"] == "aggr":
                    if rv.get("agg") in ("closure", "coroutine", "coroutine_closure"):
                        out.append(("closure", rv["closure"]))
                    for o in rv["ops"]:
                        visit_op(o)
            t = blk["term"]
            if t["k"] == "call":
                for a in t["args"]:
                    visit_op(a)
        return out


TRANSPARENT = {
    "std::ops::Try::branch": "try",
    "std::ops::Deref::deref": "deref",
    "std::ops::DerefMut::deref_mut": "deref",
    "std::convert::AsRef::as_ref": "asref",
    "std::borrow::Borrow::borrow": "asref",
    "std::clone::Clone::clone": "clone",
    "std::option::Option::<T>::as_ref": "asref",
    "std::option::Option::<T>::as_deref": "asref",
    "std::string::String::as_str": "asref",
    "std::convert::Into::into": "into",
    "std::convert::From::from": "into",
    "std::string::ToString::to_string": "tostring",
    "std::borrow::ToOwned::to_owned": "clone",
    "std::path::Path::new": "path",
    "std::path::PathBuf::as_path": "asref",
}


def strip_generics_(p):
    out = []
    depth = 0
    i = 0
    while i < len(p):
        if p.startswith("::<", i) and depth == 0:
            j = i + 3
            d = 1
            while j < len(p) and d:
                if p[j] == "<":
                    d += 1
                elif p[j] == ">":
                    d -= 1
                j += 1
            # keep `Option::<T>`-style generic markers: they are part of declared paths
            out.append(p[i:j])
            i = j
            continue
        out.append(p[i])
        i += 1
    return "".join(out)


def simplify_proj(p):
    # 'crate::mod::Type.field' -> 'Type.field'
    if "." in p:
        adt, name = p.rsplit(".", 1)
        return short_path(adt) + "." + name
    return p


def _drop_turbofish(p):
    """remove `::<...>` groups (balanced)"""
    out = []
    i = 0
    while i < len(p):
        if p.startswith("::<", i):
            j = i + 3
            d = 1
            while j < len(p) and d:
                if p[j] == "<":
                    d += 1
                elif p[j] == ">" and p[j - 1] != "-":
                    d -= 1
                j += 1
            i = j
            continue
        out.append(p[i])
        i += 1
    return "".join(out)


def short_path(p):
    """drop module qualifiers: keep the last two path components, generics removed;
    `core::str::<impl str>::find` -> `str::find`; `<T as Trait>::m` kept as is."""
    q = _drop_turbofish(p)
    m = re.match(r"^[A-Za-z_0-9]+(?:::[A-Za-z_0-9]+)*::<impl ([^>]+)>::(\w+)$", q)
    if m:
        return "%s::%s" % (m.group(1), m.group(2))
    if q.startswith("<"):
        return q
    parts = q.split("::")
    return "::".join(parts[-2:]) if len(parts) >= 2 else q


class Program:
    def __init__(self, facts_dir):
        self.fns = {}
        self.adts = {}
        self.impls = []
        self.traits = {}
        self.crates = {}
        for fn in sorted(os.listdir(facts_dir)):
            if not (fn.startswith("mir-") and fn.endswith(".json")):
                continue
            with open(os.path.join(facts_dir, fn)) as fh:
                d = json.load(fh)
            crate = d["crate"]
            self.crates[crate] = {"n_bodies": d["n_bodies"], "file": fn}
            for f in d["fns"]:
                self.fns[f["id"]] = Fn(f, crate)
            for a in d["adts"]:
                self.adts[a["path"]] = a
            for im in d["impls"]:
                im["crate"] = crate
                self.impls.append(im)
            for t in d["traits"]:
                self.traits[t["path"]] = t
        # trait method path -> [impl method paths]
        self.trait_impls = defaultdict(list)
        for im in self.impls:
            for it in im["items"]:
                if it.get("trait_item"):
                    self.trait_impls[it["trait_item"]].append(it["path"])
        self._cg = None
        self._rcg = None

    # ------------------------------------------------------------ call graph
    def targets(self, call):
        """Local bodies a call may enter (over-approximate)."""
        out = []
        if call.callee is None:
            return out
        res = call.resolved
        if res and res in self.fns:
            out.append(res)
            return out
        p = call.path
        if res is None or call.rkind in ("virtual", "unresolved"):
            # trait-dispatched: all impls + default body
            if p in self.trait_impls or p in self.fns:
                out.extend(t for t in self.trait_impls.get(p, []) if t in self.fns)
                if p in self.fns:
                    out.append(p)
        if res and res not in self.fns and p in self.fns and not out:
            out.append(p)
        return out

    @property
    def callgraph(self):
        if self._cg is None:
            cg = defaultdict(set)
            for f in self.fns.values():
                if "{promoted#" in f.id:
                    continue
                for c in f.calls:
                    for t in self.targets(c):
                        cg[f.id].add(t)
                for kind, ref in f.fn_refs():
                    if kind == "closure":
                        if ref in self.fns:
                            cg[f.id].add(ref)
                    else:
                        fake = type("X", (), {})()
                        res = ref.get("resolved") if ref.get("rkind") not in ("unresolved", "error", None) else None
                        if res and res in self.fns:
                            cg[f.id].add(res)
                        else:
                            p = ref["path"]
                            for t in self.trait_impls.get(p, []):
                                if t in self.fns:
                                    cg[f.id].add(t)
                            if p in self.fns:
                                cg[f.id].add(p)
                # closures defined inside are reachable when the parent is (aggregate creates them;
                # also covers closures only mentioned in generics)
            for f in self.fns.values():
                if f.kind == "Closure" and f.parent and f.parent in self.fns:
                    cg[f.parent].add(f.id)
            self._cg = cg
        return self._cg

    @property
    def rcallgraph(self):
        if self._rcg is None:
            r = defaultdict(set)
            for a, bs in self.callgraph.items():
                for b in bs:
                    r[b].add(a)
            self._rcg = r
        return self._rcg

    def reachable(self, entries):
        seen = set()
        dq = deque(e for e in entries if e in self.fns)
        seen.update(dq)
        while dq:
            x = dq.popleft()
            for y in self.callgraph.get(x, ()):
                if y not in seen:
                    seen.add(y)
                    dq.append(y)
        return seen

    def reaches(self, src, pred, memo=None):
        """does fn `src` (transitively) contain a call satisfying pred(Call)?  memoised DFS."""
        if memo is None:
            memo = {}
        if src in memo:
            return memo[src]
        memo[src] = False
        f = self.fns.get(src)
        res = False
        if f:
            for c in f.calls:
                if pred(c):
                    res = True
                    break
            if not res:
                for t in self.callgraph.get(src, ()):
                    if self.reaches(t, pred, memo):
                        res = True
                        break
        memo[src] = res
        return res

    def path_to(self, entries, goal_fn):
        """one call path entry -> goal fn (list of fn ids) for diagnostics"""
        prev = {}
        dq = deque(e for e in entries if e in self.fns)
        for e in dq:
            prev[e] = None
        while dq:
            x = dq.popleft()
            if x == goal_fn:
                out = []
                while x is not None:
                    out.append(x)
                    x = prev[x]
                return list(reversed(out))
            for y in sorted(self.callgraph.get(x, ())):
                if y not in prev:
                    prev[y] = x
                    dq.append(y)
        return None

    def fn(self, fid):
        return self.fns.get(fid)

    def find(self, suffix):
        """functions whose id ends with ::suffix (or equals it)"""
        return [f for k, f in self.fns.items() if k == suffix or k.endswith("::" + suffix)]

#!/bin/bash
# seedintake.sh <ID> <variant>...: verify a sub-agent's seed in its worktree, store it under /verif/seeded, run the property's own check against it
ID=$1; shift
for v in "$@"; do
  echo "== $ID/$v"
  /verif/selftest/seedverify.sh /tmp/seed/$ID /tmp/seed/$ID/SEED/$v 2>&1 | grep VERIFY
  /verif/selftest/seedstore.sh $ID $v >/dev/null
  python3 /verif/selftest/seedcheck.py /verif/seeded/$ID/$v 2>&1 | grep -v "conda\|Caused by\|^$" | cut -c1-320
done

#!/usr/bin/env python3
"""seedmatrix — which registered check reports which seeded change (run on scratch copies; /repo is not touched).
writes seeded/MATRIX.json and prints a markdown table"""
import glob, json, os, shutil, subprocess, sys
sys.path.insert(0, os.path.dirname(os.path.abspath(__file__)))
sys.path.insert(0, os.path.join(os.path.dirname(os.path.dirname(os.path.abspath(__file__))), "rules"))
import harness
VERIF = harness.VERIF
ALL = ["C%02d" % i for i in range(1, 21)]
only = set(sys.argv[1:])
out = {}
mp = os.path.join(VERIF, "seeded", "MATRIX.json")
if os.path.exists(mp):
    out = json.load(open(mp))
for sd in sorted(glob.glob(os.path.join(VERIF, "seeded", "C??", "?"))):
    sid = "/".join(sd.split("/")[-2:])
    if only and sid.split("/")[0] not in only and sid not in only:
        continue
    root = harness.make_scratch()
    try:
        r = subprocess.run("cd %s && git init -q . && git apply %s/patch.diff" % (root, sd), shell=True, capture_output=True, text=True)
        if r.returncode != 0:
            out[sid] = {"error": r.stderr[-300:]}
            continue
        caught = {}
        for p in ALL:
            try:
                rc, new, known, _ = harness.run_on(root, p)
            except Exception as e:  # noqa
                caught[p] = ["<error %s>" % str(e)[:80]]
                continue
            if rc != 0 and new:
                caught[p] = [k.split(" | ", 1)[0] for k in new][:4]
        meta = json.load(open(os.path.join(sd, "meta.json")))
        out[sid] = {"summary": meta.get("summary", "")[:200], "caught_by": caught}
        print("%s: %s" % (sid, ", ".join("%s(%s)" % (p, ";".join(sorted(set(v)))) for p, v in caught.items()) or "NOTHING"), flush=True)
    finally:
        shutil.rmtree(root, ignore_errors=True)
    json.dump(out, open(mp, "w"), indent=1, ensure_ascii=False)

#!/usr/bin/env python3
"""refprop — run selected checks on selected refactors (quick regression while editing a rule).  usage: refprop.py C13[,C07] [area|area/variant ...]
Nothing is written to RESULTS.json."""
import glob, os, shutil, subprocess, sys
sys.path.insert(0, os.path.dirname(os.path.abspath(__file__)))
sys.path.insert(0, os.path.join(os.path.dirname(os.path.dirname(os.path.abspath(__file__))), "rules"))
import harness
props = sys.argv[1].split(",")
only = set(sys.argv[2:])
base = os.path.join(harness.VERIF, "seeded", "refactors")
bad = 0
for sd in sorted(glob.glob(os.path.join(base, "R??", "r?"))):
    sid = "/".join(sd.split("/")[-2:])
    if only and sid.split("/")[0] not in only and sid not in only:
        continue
    root = harness.make_scratch()
    try:
        r = subprocess.run("cd %s && git init -q . && git apply %s/patch.diff" % (root, sd), shell=True, capture_output=True, text=True)
        if r.returncode != 0:
            print("%s: DOES-NOT-APPLY" % sid, flush=True)
            continue
        for p in props:
            try:
                rc, new, known, _ = harness.run_on(root, p)
            except Exception as e:  # noqa
                rc, new = 1, ["<error %s>" % str(e)[-200:]]
            if rc != 0:
                bad += 1
            print("%s %s: %s" % (sid, p, "silent" if rc == 0 else "ALARM " + " || ".join(new[:4])), flush=True)
    finally:
        shutil.rmtree(root, ignore_errors=True)
sys.exit(1 if bad else 0)

#!/bin/bash
# seedverify.sh <worktree> <seed dir>: confirm a seeded change — applies on clean HEAD, compiles, full test suite passes,
# demo shows the violation on the patched tree (exit 1) and not on the clean tree (exit 0).  Leaves the worktree clean.
set -u
WT=$1; SD=$2
export CARGO_NET_OFFLINE=true
cd "$WT" || exit 2
git checkout -q -- . ; 
git apply --check "$SD/patch.diff" || { echo "VERIFY patch-does-not-apply"; exit 2; }
git apply "$SD/patch.diff"
T=$(cargo test --workspace --no-fail-fast --offline 2>&1 | awk '/^test result/{s+=$4; f+=$6} END {print s" "f}')
echo "VERIFY tests passed/failed: $T"
bash "$SD/demo.sh" "$WT" > "$SD/demo_patched.out" 2>&1; P=$?
git checkout -q -- .
bash "$SD/demo.sh" "$WT" > "$SD/demo_clean.out" 2>&1; C=$?
echo "VERIFY demo patched exit=$P clean exit=$C"
git status --porcelain | grep -v "^?? SEED" | head -3
[ "$P" = "1" ] && [ "$C" = "0" ] && [ "${T#* }" = "0" ] && echo "VERIFY OK" || echo "VERIFY FAILED"

#!/usr/bin/env python3
"""fill the generated tables of DESIGN.md §8.5/§8.6 from selftest/LAST_RUN.txt and seeded/MATRIX.json (+ seeded/*/*/check_result.json)"""
import collections, glob, json, os, re, sys
V = os.path.dirname(os.path.dirname(os.path.abspath(__file__)))
sys.path.insert(0, os.path.join(V, "selftest")); sys.path.insert(0, os.path.join(V, "rules"))
import mutants
d = open(os.path.join(V, "DESIGN.md")).read()

def put(tag, text):
    global d
    b, e = "<!-- %s:BEGIN -->" % tag, "<!-- %s:END -->" % tag
    if b in d:
        d = d[:d.index(b) + len(b)] + "\n" + text.strip("\n") + "\n" + d[d.index(e):]
    else:
        d = d.replace("@%s@" % tag, b + "\n" + text.strip("\n") + "\n" + e)

last = {}
lp = os.path.join(V, "selftest", "LAST_RUN.txt")
summary = "(not run)"
if os.path.exists(lp):
    lines = open(lp).read().splitlines()
    summary = lines[0]
    for l in lines[1:]:
        parts = l.split()
        if len(parts) >= 3:
            last[parts[0]] = parts[2]
nb = sum(1 for m in mutants.MUTANTS if m["expect"] is not None)
ns = sum(1 for m in mutants.MUTANTS if m["expect"] is None)
put("NMUT", str(len(mutants.MUTANTS))); put("NBREAK", str(nb)); put("NSILENT", str(ns))
rows = ["| property | break-variants (caught / total) | refactors (silent / total) | examples of what is broken |", "|---|---|---|---|"]
byp = collections.defaultdict(list)
for m in mutants.MUTANTS:
    byp[m["prop"]].append(m)
for p in sorted(byp):
    br = [m for m in byp[p] if m["expect"] is not None]
    si = [m for m in byp[p] if m["expect"] is None]
    cb = sum(1 for m in br if last.get(m["id"]) == "caught")
    cs = sum(1 for m in si if last.get(m["id"]) == "silent-ok")
    ex = ", ".join(m["id"].split("-", 1)[1] for m in br[:4])
    rows.append("| %s | %d / %d | %d / %d | %s |" % (p, cb, len(br), cs, len(si), ex))
put("MUTTABLE", "\n".join(rows) + "\n\nLast full run: " + summary)

mx = {}
mp = os.path.join(V, "seeded", "MATRIX.json")
if os.path.exists(mp):
    mx = json.load(open(mp))
hist = {}
hp = os.path.join(V, "seeded", "HISTORY.json")
if os.path.exists(hp):
    hist = json.load(open(hp))
rows = ["| seed | what was changed (sub-agent's summary) | reported by (final checks) | first run of its own property's check | rule added / strengthened because of it |", "|---|---|---|---|---|"]
for sd in sorted(glob.glob(os.path.join(V, "seeded", "C??", "?"))):
    sid = "/".join(sd.split("/")[-2:])
    meta = json.load(open(os.path.join(sd, "meta.json")))
    cb = mx.get(sid, {}).get("caught_by", {})
    if "error" in mx.get(sid, {}):
        cr = {}
        crp = os.path.join(sd, "check_result.json")
        if os.path.exists(crp):
            cr = json.load(open(crp))
        own = [p for p, v in cr.items() if v.get("exit") == 1 and v.get("violations")]
        rows.append("| %s | %s | n/a on the final tree (on its base commit: %s) | %s | %s |" % (sid, meta.get("summary", "").replace("|", "\\|")[:230], ", ".join(own) or "—", hist.get(sid, {}).get("first", "?"), hist.get(sid, {}).get("strengthened", "")))
        continue
    cbt = "; ".join("%s: %s" % (p, ", ".join(sorted(set(r.replace(p + "-", "") for r in v)))) for p, v in sorted(cb.items())) or "—"
    if not cb:
        cr = {}
        crp = os.path.join(sd, "check_result.json")
        if os.path.exists(crp):
            cr = json.load(open(crp))
        own = [p for p, v in cr.items() if v.get("exit") == 1 and v.get("violations")]
        if own:
            cbt = "— on the final tree (the code it edits is no longer reachable after a later fix); on its base commit: %s" % ", ".join(own)
    h = hist.get(sid, {})
    rows.append("| %s | %s | %s | %s | %s |" % (sid, meta.get("summary", "").replace("|", "\\|")[:230], cbt, h.get("first", "?"), h.get("strengthened", "")))
n = len(rows) - 2
first_caught = sum(1 for v in hist.values() if v.get("first") == "caught")
first_caught = sum(1 for v in hist.values() if v.get("first", "").startswith("caught"))
put("SEEDTABLE", "\n".join(rows) + "\n\n%d seeded changes kept; %d were reported by the check of their own property as it stood when the seed arrived." % (n, first_caught))
# refactor table (behaviour-preserving changes by independent sub-agents)
rdir = os.path.join(V, "seeded", "refactors")
if os.path.exists(os.path.join(rdir, "RESULTS.json")) and "<!-- REFTABLE:BEGIN -->" in d:
    res = json.load(open(os.path.join(rdir, "RESULTS.json")))
    fcs = {}
    for name in ("FIRST_CONTACT.json", "FIRST_CONTACT_2.json", "FIRST_CONTACT_3.json"):
        if os.path.exists(os.path.join(rdir, name)):
            fcs.update(json.load(open(os.path.join(rdir, name))))
    rrows = ["| refactor | kind (sub-agent's words) | first contact | final tree |", "|---|---|---|---|"]
    n_first = n_final = 0
    for k in sorted(res):
        v = res[k]
        fc = fcs.get(k, {})
        first = "silent" if fc.get("first") == "silent" else ("alarm: " + ", ".join(r.split("-", 1)[0] + "-" + r.split("-")[1] for r in fc.get("rules", [])[:4]) if fc else "—")
        if fc.get("first") == "alarm":
            n_first += 1
        fin = "silent" if not v.get("alarms") and not v.get("error") else ("alarm: " + ", ".join(sorted(v.get("alarms", {}))) if v.get("alarms") else "n/a (%s)" % v.get("error", "")[:40])
        if v.get("alarms"):
            n_final += 1
        rrows.append("| %s | %s | %s | %s |" % (k, (v.get("kind") or "").replace("|", "\\|")[:110], first, fin))
    put_txt = "\n".join(rrows) + "\n\n%d refactors stored; %d raised an alarm when they arrived; %d raise one on the final tree." % (len(res), n_first, n_final)
    b_, e_ = "<!-- REFTABLE:BEGIN -->", "<!-- REFTABLE:END -->"
    d = d[:d.index(b_) + len(b_)] + "\n" + put_txt + "\n" + d[d.index(e_):]
# per-property "as built" line under each §5 heading
kf = collections.Counter(); fx = collections.Counter()
for l in open(os.path.join(V, "KNOWN_FINDINGS.txt")):
    if l.startswith("finding:"):
        kf[l.split("property=")[1][:3]] += 1
    if l.startswith("fixed:"):
        fx[l.split("property=")[1][:3]] += 1
for i in range(1, 21):
    pid = "C%02d" % i
    evp = os.path.join(V, "evidence", pid + ".json")
    if not os.path.exists(evp):
        continue
    ev = json.load(open(evp))
    rl = ev["coverage"]["rules"]
    line = ("> **as built** — rules: %s.  %d instances checked on the current tree, %d known finding(s) still reported, %d defect(s) of the pinned tree repaired "
            "(`fixed:` lines in KNOWN_FINDINGS.txt).  The \"today\" paragraph below describes the pinned tree before those repairs; rules added after this design are listed in §8.6."
            % (", ".join("%s (%d)" % (r["rule"].replace(pid + "-", ""), r["instances"]) for r in rl), ev["coverage"]["obligations"], kf[pid], fx[pid]))
    b, e = "<!-- ASBUILT:%s:BEGIN -->" % pid, "<!-- ASBUILT:%s:END -->" % pid
    if b in d:
        d = d[:d.index(b) + len(b)] + "\n" + line + "\n" + d[d.index(e):]
    else:
        m = re.search(r"^### %s — [^\n]*\n" % pid, d, re.M)
        if m:
            d = d[:m.end()] + "\n" + b + "\n" + line + "\n" + e + "\n" + d[m.end():]
open(os.path.join(V, "DESIGN.md"), "w").write(d)
print("filled: %d mutants, %d seeds" % (len(mutants.MUTANTS), n))

#!/bin/bash
# seedstore.sh <ID> <variant>: copy a confirmed seed from /tmp/seed/<ID>/SEED/<v> to /verif/seeded/<ID>/<v>
ID=$1; V=$2
mkdir -p /verif/seeded/$ID/$V
cp /tmp/seed/$ID/SEED/$V/{patch.diff,demo.sh,meta.json} /verif/seeded/$ID/$V/
for f in demo_patched.out demo_clean.out; do [ -f /tmp/seed/$ID/SEED/$V/$f ] && head -c 6000 /tmp/seed/$ID/SEED/$V/$f > /verif/seeded/$ID/$V/$f; done
echo stored /verif/seeded/$ID/$V

#!/usr/bin/env python3
"""seedcheck — run the registered checks against a seeded breaking change.

usage: seedcheck.py <seed dir with patch.diff> [PROP ...]      (default: the property of meta.json, then all others)

Applies the patch to /repo (git apply), runs `bin/ttv check <P>` for the requested properties, prints which checks report a
violation, and ALWAYS restores /repo (git checkout -- . ; untracked files created by the patch are removed).  Nothing is committed.
"""
import json
import os
import subprocess
import sys

REPO = "/repo"
TTV = "/verif/bin/ttv"
ALL = ["C%02d" % i for i in range(1, 21)]


def sh(cmd, **kw):
    return subprocess.run(cmd, shell=True, text=True, capture_output=True, **kw)


def main():
    seed = os.path.abspath(sys.argv[1])
    patch = os.path.join(seed, "patch.diff")
    meta = {}
    if os.path.exists(os.path.join(seed, "meta.json")):
        meta = json.load(open(os.path.join(seed, "meta.json")))
    props = sys.argv[2:] or ([meta["property"]] if meta.get("property") else ALL)
    if props == ["all"]:
        props = ALL
    st = sh("git -C %s status --porcelain" % REPO).stdout.strip()
    if st:
        print("refusing: /repo is not clean:\n" + st)
        return 2
    r = sh("git -C %s apply --check %s" % (REPO, patch))
    if r.returncode != 0:
        print("patch does not apply: " + r.stderr)
        return 2
    sh("git -C %s apply %s" % (REPO, patch))
    results = {}
    try:
        for p in props:
            r = sh("%s check %s" % (TTV, p))
            viol = [l for l in r.stdout.splitlines() if l.startswith("VIOLATION")]
            keys = [l.strip()[5:] for l in r.stdout.splitlines() if l.strip().startswith("key: ")]
            results[p] = {"exit": r.returncode, "violations": len(viol), "keys": keys[:6]}
            print("%s exit=%d violations=%d %s" % (p, r.returncode, len(viol), "; ".join(keys[:3])[:300]))
    finally:
        sh("git -C %s checkout -- ." % REPO)
        sh("git -C %s clean -fdq -- src tests examples" % REPO)
    out = os.path.join(seed, "check_result.json")
    prev = {}
    if os.path.exists(out):
        prev = json.load(open(out))
    prev.update(results)
    json.dump(prev, open(out, "w"), indent=1)
    caught = [p for p, v in results.items() if v["exit"] == 1 and v["violations"]]
    print("caught by: %s" % (caught or "NOTHING"))
    return 0


if __name__ == "__main__":
    sys.exit(main())

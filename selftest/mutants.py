"""Self-test corpus: rule-breaking variants (expect=<key substring>) and silent refactors (expect=None)."""
BIN = "src/bin/cargo-tauri-typegen.rs"
FW = "src/generators/base/file_writer.rs"
TSGEN = "src/generators/ts/generator.rs"
ZODGEN = "src/generators/zod/generator.rs"
BUILD = "src/build/mod.rs"
CACHE = "src/build/generation_cache.rs"
OM = "src/build/output_manager.rs"
CFG = "src/interface/config.rs"

MUTANTS = [
    # ---------------------------------------------------------------- C17
    dict(id="C17-save-before-generate", prop="C17", expect="C17-D1-save-after-success",
         edits=[(BIN, "    let mut generator = create_generator(validation);\n    let generated_files = generator.generate_models(",
                 "    let cache0 = GenerationCache::new(&commands, discovered_structs, &config)?;\n    let _ = cache0.save(&config.output_path);\n    let mut generator = create_generator(validation);\n    let generated_files = generator.generate_models(")]),
    dict(id="C17-let-underscore-write-events", prop="C17", expect="C17-D2-write-errors-propagate",
         edits=[(TSGEN, "file_writer.write_events_file(&events_content)?;", "let _ = file_writer.write_events_file(&events_content);")]),
    dict(id="C17-ok-on-fs-write", prop="C17", expect="C17-D2-write-errors-propagate",
         edits=[(FW, "fs::write(&file_path, content)?;", "fs::write(&file_path, content).ok();")]),
    dict(id="C17-save-inside-needs-regeneration", prop="C17", expect="C17-D1",
         edits=[(CACHE, "        // Compare combined hashes\n", "        let _ = current_cache.save(&output_dir);\n        // Compare combined hashes\n")]),
    dict(id="C17-exit-zero", prop="C17", expect="C17-D2-main-exit-status",
         edits=[(BIN, "                        eprintln!(\"Error: {}\", e);\n                        std::process::exit(1);\n                    }\n                }\n                TypegenCommands::Init",
                 "                        eprintln!(\"Error: {}\", e);\n                        std::process::exit(0);\n                    }\n                }\n                TypegenCommands::Init")]),
    dict(id="C17-viz-write-ignored-build", prop="C17", expect="C17-D",
         edits=[(BUILD, "            self.generate_dependency_visualization(&analyzer, &commands, &config.output_path)?;",
                 "            let _ = self.generate_dependency_visualization(&analyzer, &commands, &config.output_path);")]),
    dict(id="C17-cache-from-empty-commands", prop="C17", expect="C17-D3",
         edits=[(BUILD, "let cache = GenerationCache::new(&commands, discovered_structs, config)?;", "let cache = GenerationCache::new(&[], discovered_structs, config)?;")]),
    dict(id="C17-silent-extract-helper", prop="C17", expect=None,
         edits=[(FW, "        fs::write(&file_path, content)?;\n        self.generated_files.push(filename.to_string());\n        Ok(())\n    }",
                 "        Self::put(&file_path, content)?;\n        self.generated_files.push(filename.to_string());\n        Ok(())\n    }\n\n    fn put(p: &str, c: &str) -> Result<(), Box<dyn std::error::Error>> {\n        fs::write(p, c)?;\n        Ok(())\n    }")]),
    dict(id="C17-silent-match-instead-of-question", prop="C17", expect=None,
         edits=[(FW, "        fs::write(&file_path, content)?;\n        self.generated_files", "        if let Err(e) = fs::write(&file_path, content) {\n            return Err(e.into());\n        }\n        self.generated_files")]),
    # ---------------------------------------------------------------- C16
    dict(id="C16-predicate-ends-with-ts", prop="C16", expect="C16-D3-deletion-predicate",
         edits=[(OM, "            || filename.contains(\"_generated\")", "            || filename.contains(\"_generated\")\n            || filename.ends_with(\".ts\")")]),
    dict(id="C16-predicate-literal-utils", prop="C16", expect="C16-D3-deletion-predicate",
         edits=[(OM, "            \"bindings.d.ts\",\n", "            \"bindings.d.ts\",\n            \"utils.ts\",\n")]),
    dict(id="C16-viz-to-parent-dir", prop="C16", expect="C16-D2-path-provenance",
         edits=[(BUILD, "let viz_file_path = Path::new(output_path).join(\"dependency-graph.txt\");",
                 "let viz_file_path = Path::new(output_path).parent().unwrap_or(Path::new(\".\")).join(\"dependency-graph.txt\");")]),
    dict(id="C16-filename-from-model", prop="C16", expect="C16-D2-path-provenance",
         edits=[(TSGEN, "        file_writer.write_commands_file(&commands_content)?;", "        file_writer.write_typescript_file(&format!(\"{}.ts\", commands[0].name), &commands_content)?;")]),
    dict(id="C16-drop-not-current-guard", prop="C16", expect="C16-D3-deletion-predicate",
         edits=[(OM, "if self.is_generated_file(filename) && !current_set.contains(filename) {", "if self.is_generated_file(filename) {")]),
    dict(id="C16-cleanup-removes-dirs", prop="C16", expect="C16-D",
         edits=[(OM, "            if path.is_file() {\n                if let Some(filename) = path.file_name().and_then(|n| n.to_str()) {\n                    // Only clean up",
                 "            if path.is_dir() {\n                let _ = fs::remove_dir_all(&path);\n            }\n            if path.is_file() {\n                if let Some(filename) = path.file_name().and_then(|n| n.to_str()) {\n                    // Only clean up")]),
    dict(id="C16-write-into-project", prop="C16", expect="C16-D",
         edits=[(BIN, "    // Save cache after successful generation\n    let cache = GenerationCache::new(&commands, discovered_structs, &config)?;",
                 "    fs::write(PathBuf::from(&config.project_path).join(\"bindings.ts\"), \"x\")?;\n    // Save cache after successful generation\n    let cache = GenerationCache::new(&commands, discovered_structs, &config)?;")]),
    dict(id="C16-cache-file-elsewhere", prop="C16", expect="C16-D2-path-provenance",
         edits=[(CACHE, "        output_dir.as_ref().join(CACHE_FILE_NAME)", "        output_dir.as_ref().join(\"..\").join(CACHE_FILE_NAME)")]),
    dict(id="C16-silent-helper-around-write", prop="C16", expect=None,
         edits=[(FW, "        fs::write(&file_path, content)?;\n        self.generated_files.push(filename.to_string());\n        Ok(())\n    }",
                 "        Self::put(&file_path, content)?;\n        self.generated_files.push(filename.to_string());\n        Ok(())\n    }\n\n    fn put(p: &str, c: &str) -> Result<(), Box<dyn std::error::Error>> {\n        fs::write(p, c)?;\n        Ok(())\n    }")]),
    dict(id="C16-silent-pathbuf-join", prop="C16", expect=None,
         edits=[(FW, "        let file_path = format!(\"{}/{}\", self.output_path, filename);\n        fs::write(&file_path, content)?;",
                 "        let file_path = Path::new(&self.output_path).join(filename);\n        fs::write(&file_path, content)?;")]),
]

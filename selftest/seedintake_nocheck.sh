#!/bin/bash
# seedintake_nocheck.sh <ID> <variant>...: verify a sub-agent's seed in its worktree and store it (no check run: several of these may run side by side,
# the checks go through /repo one at a time afterwards — selftest/seedcheck.py)
ID=$1; shift
for v in "$@"; do
  echo "== $ID/$v"
  /verif/selftest/seedverify.sh /tmp/seed/$ID /tmp/seed/$ID/SEED/$v 2>&1 | grep VERIFY
  /verif/selftest/seedstore.sh $ID $v >/dev/null
done

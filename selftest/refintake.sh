#!/usr/bin/env bash
# refintake.sh <Rxx> : verify (patch applies on HEAD in the agent's worktree, full test suite passes) and store the refactors of one area
# under /verif/seeded/refactors/<Rxx>/<rN>/ ; then run all twenty checks on each (selftest/refcheck.py)
set -u
ID=$1
WT=/tmp/seed/$ID
for d in "$WT"/SEED/r?; do
  v=$(basename "$d")
  [ -f "$d/patch.diff" ] || continue
  ( cd "$WT" && git checkout -q -- . && git apply "$d/patch.diff" ) || { echo "$ID/$v: patch does not apply"; continue; }
  res=$( cd "$WT" && CARGO_NET_OFFLINE=true cargo test --workspace --no-fail-fast --offline 2>&1 | grep "^test result" | awk '{p+=$4; f+=$6} END {print p, f}' )
  ( cd "$WT" && git checkout -q -- . && git clean -fdq src )
  echo "$ID/$v: tests passed/failed: $res"
  set -- $res
  if [ "${2:-1}" != "0" ] || [ "${1:-0}" -lt 640 ]; then echo "$ID/$v: REJECTED (tests)"; continue; fi
  dst=/verif/seeded/refactors/$ID/$v
  mkdir -p "$dst"
  cp "$d/patch.diff" "$d/meta.json" "$dst/"
done
[ -n "${NO_CHECK:-}" ] || python3 /verif/selftest/refcheck.py "$ID" 2>&1 | grep -v "conda\|Caused by\|^$" | cut -c1-700

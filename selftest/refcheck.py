#!/usr/bin/env python3
"""refcheck — run all twenty checks on behaviour-preserving refactors written by independent sub-agents (seeded/refactors/<area>/<variant>/patch.diff).
Every check must stay silent on each of them.  Scratch copies of /repo's HEAD only; /repo is not touched.
usage: refcheck.py [area|area/variant ...]      writes seeded/refactors/RESULTS.json"""
import glob, json, os, shutil, subprocess, sys
sys.path.insert(0, os.path.dirname(os.path.abspath(__file__)))
sys.path.insert(0, os.path.join(os.path.dirname(os.path.dirname(os.path.abspath(__file__))), "rules"))
import harness
VERIF = harness.VERIF
ALL = ["C%02d" % i for i in range(1, 21)]
only = set(sys.argv[1:])
base = os.path.join(VERIF, "seeded", "refactors")
rp = os.path.join(base, "RESULTS.json")
out = json.load(open(rp)) if os.path.exists(rp) else {}
bad = 0
for sd in sorted(glob.glob(os.path.join(base, "R??", "r?"))):
    sid = "/".join(sd.split("/")[-2:])
    if only and sid.split("/")[0] not in only and sid not in only:
        continue
    root = harness.make_scratch()
    try:
        r = subprocess.run("cd %s && git init -q . && git apply %s/patch.diff" % (root, sd), shell=True, capture_output=True, text=True)
        if r.returncode != 0:
            out[sid] = {"error": "patch does not apply on HEAD: " + r.stderr[-200:]}
            print("%s: DOES-NOT-APPLY" % sid, flush=True)
            continue
        alarms = {}
        for p in ALL:
            try:
                rc, new, known, _ = harness.run_on(root, p)
            except Exception as e:  # noqa
                alarms[p] = ["<error %s>" % str(e)[-300:]]
                continue
            if rc != 0:
                alarms[p] = new[:6] or ["<exit %s without key>" % rc]
        meta = json.load(open(os.path.join(sd, "meta.json")))
        out[sid] = {"kind": meta.get("kind", ""), "summary": meta.get("summary", "")[:240], "alarms": alarms}
        if alarms:
            bad += 1
        print("%s: %s" % (sid, "silent" if not alarms else "ALARM " + "; ".join("%s: %s" % (p, " || ".join(v)) for p, v in alarms.items())), flush=True)
    finally:
        shutil.rmtree(root, ignore_errors=True)
    json.dump(out, open(rp, "w"), indent=1, ensure_ascii=False)
print("%d refactors checked, %d with alarms" % (len([k for k in out if not only or k in only or k.split('/')[0] in only]), bad))
sys.exit(1 if bad else 0)

"""selftest harness — both-ways testing of the checker.

Each mutant is a textual replacement in a scratch copy of /repo (under $TMPDIR, removed
afterwards).  The variant must still `cargo check` (the fact extraction runs the real build) and
the named rule must report it with a key that KNOWN_FINDINGS.txt does not list.  Each "silent"
variant is a behaviour-preserving refactor that must not produce any new violation.
"""
import importlib
import io
import os
import shutil
import sys
import tempfile
import contextlib

VERIF = os.path.dirname(os.path.dirname(os.path.abspath(__file__)))
sys.path.insert(0, os.path.join(VERIF, "rules"))
import common  # noqa: E402


def make_scratch():
    """scratch copy of /repo's committed tree (HEAD), so that a seeded patch temporarily applied to the working tree by seedcheck.py cannot leak in"""
    import subprocess
    d = tempfile.mkdtemp(prefix="ttv-selftest-")
    # Cargo.lock is not tracked in the repository: it is copied from the working tree (no seed touches it)
    r = subprocess.run("set -o pipefail; git -C %s archive HEAD src build.rs Cargo.toml | tar -x -C %s && cp %s/Cargo.lock %s/" % (common.REPO, d, common.REPO, d),
                       shell=True, capture_output=True, text=True, executable="/bin/bash")
    if r.returncode != 0:
        for name in ("src", "build.rs", "Cargo.toml", "Cargo.lock"):
            s = os.path.join(common.REPO, name)
            if os.path.isdir(s):
                shutil.copytree(s, os.path.join(d, name))
            elif os.path.exists(s):
                shutil.copy(s, os.path.join(d, name))
    return d


def apply_edits(root, edits):
    for ed in edits:
        rel, old, new = ed[0], ed[1], ed[2]
        everywhere = len(ed) > 3 and ed[3] == "all"
        p = os.path.join(root, rel)
        with open(p) as fh:
            s = fh.read()
        if s.count(old) < 1:
            raise RuntimeError("mutant does not apply: %r not in %s" % (old[:60], rel))
        s = s.replace(old, new) if everywhere else s.replace(old, new, 1)
        with open(p, "w") as fh:
            fh.write(s)


def run_on(root, prop):
    """returns (new_violation_keys, known_keys, output)"""
    mod = importlib.import_module(prop.lower())
    importlib.reload(mod)
    buf = io.StringIO()
    try:
        with contextlib.redirect_stdout(buf):
            ctx = common.Ctx(tier="quick", repo=root)
            rc = mod.check(ctx)
        out = buf.getvalue()
        new = []
        lines = out.splitlines()
        for i, l in enumerate(lines):
            if l.startswith("  key: "):
                new.append(l[len("  key: "):])
        known = [l for l in lines if l.startswith("KNOWN-FINDING")]
        return rc, new, known, out
    finally:
        pass


def run_mutants(mutants, props=None, verbose=True):
    """mutants: list of dict(id, prop, edits=[(file, old, new)], expect=<substring of key> | None for silent)"""
    results = []
    for m in mutants:
        if props and m["prop"] not in props and m["id"] not in props:
            continue
        root = make_scratch()
        try:
            try:
                apply_edits(root, m["edits"])
            except RuntimeError as e:
                results.append((m, "STALE", str(e)))
                if verbose:
                    print("%-44s STALE        %s" % (m["id"], str(e)[:160]))
                continue
            try:
                if m["prop"] == "ALL":
                    rc, new, known, out = 0, [], [], ""
                    for pp in ["C%02d" % i for i in range(1, 21)]:
                        rc1, new1, known1, out1 = run_on(root, pp)
                        rc = rc or rc1
                        new += new1
                else:
                    rc, new, known, out = run_on(root, m["prop"])
            except common.FactsError as e:
                results.append((m, "BUILD-FAIL", str(e)[-400:]))
                if verbose:
                    print("%-44s BUILD-FAIL\n%s" % (m["id"], str(e)[-600:]))
                continue
            if m.get("expect") is None:
                ok = (rc == 0)
                status = "silent-ok" if ok else "FALSE-ALARM"
            else:
                hit = [k for k in new if m["expect"] in k]
                ok = bool(hit)
                status = "caught" if ok else "MISSED"
            results.append((m, status, new))
            if verbose:
                print("%-44s %-12s %s" % (m["id"], status, "; ".join(new)[:200]))
        finally:
            shutil.rmtree(root, ignore_errors=True)
    return results

#!/usr/bin/env python3
"""mkscratch.py <dir with patch.diff> : scratch copy of /repo HEAD with the patch applied; prints its path (remove it yourself)"""
import os, subprocess, sys
sys.path.insert(0, os.path.dirname(os.path.abspath(__file__)))
import harness
root = harness.make_scratch()
r = subprocess.run("cd %s && git init -q . && git apply %s/patch.diff" % (root, os.path.abspath(sys.argv[1])), shell=True, capture_output=True, text=True)
if r.returncode != 0:
    print("PATCH FAILED", r.stderr, file=sys.stderr)
print(root)

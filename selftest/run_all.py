#!/usr/bin/env python3
"""run the whole scratch-copy corpus and write selftest/LAST_RUN.txt (by hand; not a registered check)"""
import os, sys, time
sys.path.insert(0, os.path.dirname(os.path.abspath(__file__)))
sys.path.insert(0, os.path.join(os.path.dirname(os.path.dirname(os.path.abspath(__file__))), "rules"))
import harness, mutants
props = set(sys.argv[1:]) or None
t0 = time.time()
res = harness.run_mutants(mutants.MUTANTS, props=props)
lines = []
bad = 0
for m, status, info in res:
    if status not in ("caught", "silent-ok"):
        bad += 1
    lines.append("%-46s %-5s %-12s %s" % (m["id"], m["prop"], status, ("; ".join(info)[:160] if isinstance(info, list) else str(info)[:160])))
summary = "%d variants, %d not as expected, %.0fs, tree %s" % (len(res), bad, time.time() - t0, harness.common.tree_hash())
out = os.path.join(os.path.dirname(os.path.abspath(__file__)), "LAST_RUN.txt" if not props else "LAST_RUN_%s.txt" % "_".join(sorted(props)))
open(out, "w").write(summary + "\n" + "\n".join(lines) + "\n")
print(summary)
sys.exit(1 if bad else 0)
